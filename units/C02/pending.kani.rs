use super::*;
use std::ffi::OsStr;
use std::os::unix::ffi::OsStrExt as _;

// C02-pending: "following option values up to the option's value count" bookkeeping of the pending
// buffer: values are appended in order to ONE pending arg, trailing_idx is set once to the count
// before `--`, take_pending returns everything and leaves nothing.  One harness per operation shape
// (P = push one pending value with a symbolic `trailing_values` bit, T = start_trailing): a symbolic
// operation choice makes the Vec length symbolic (pending_ops over 3 symbolic operations took 1060 s).
fn run_pending(shape: &[u8]) {
    let mut m = ArgMatcher::default();
    let id = Id::from_static_ref("o");
    let mut model: [u8; 4] = [0; 4];
    let mut n: usize = 0;
    let mut trailing: Option<usize> = None;
    let mut started = false;
    let mut k = 0;
    while k < shape.len() {
        if shape[k] == b'P' {
            let t: u8 = kani::any();
            kani::assume(t >= b'a' && t <= b'z');
            let tv: bool = kani::any();
            let v = m.pending_values_mut(&id, None, tv);
            v.push(OsString::from(OsStr::from_bytes(&[t])));
            if tv && trailing.is_none() { trailing = Some(n); }
            model[n] = t; n += 1; started = true;
        } else {
            m.start_trailing();
            if started && trailing.is_none() { trailing = Some(n); }
        }
        assert!(m.pending_arg_id().is_some() == started);
        k += 1;
    }
    let p = m.take_pending();
    assert!(p.is_some() == started);
    if let Some(p) = p {
        assert!(p.id == id);
        assert!(p.raw_vals.len() == n);
        let mut j = 0;
        while j < n { let b = p.raw_vals[j].as_os_str().as_bytes(); assert!(b.len() == 1 && b[0] == model[j]); j += 1; }
        assert!(p.trailing_idx == trailing);
        std::mem::forget(p);
    }
    assert!(m.take_pending().is_none());
    assert!(m.pending_arg_id().is_none());
    kani::cover!(true);
    std::mem::forget(m);
}

macro_rules! pshape {
    ($name:ident, $s:expr) => {
        #[kani::proof]
        #[kani::unwind(6)]
        pub(super) fn $name() { run_pending($s); }
    };
}
pshape!(pending_t, b"T");
pshape!(pending_p, b"P");
pshape!(pending_pp, b"PP");
pshape!(pending_ptp, b"PTP");
pshape!(pending_tpp, b"TPP");
pshape!(pending_ppt, b"PPT");
pshape!(pending_ppp, b"PPP");

/// needs_more_vals(o) <=> (pending values of o, else 0) < o.num_args.max
#[kani::proof]
#[kani::unwind(6)]
pub(super) fn needs_more_vals_is_accepts_more() {
    let lo: usize = kani::any();
    let hi: usize = kani::any();
    kani::assume(lo <= hi);
    let mut a = Arg::new("o").long("o").action(crate::builder::ArgAction::Append).num_args(lo..=hi);
    a._build();
    let mut m = ArgMatcher::default();
    let same: bool = kani::any();
    let pend: usize = kani::any();
    kani::assume(pend <= 2);
    let has_pending: bool = kani::any();
    if has_pending {
        let id = if same { Id::from_static_ref("o") } else { Id::from_static_ref("x") };
        let mut j = 0;
        while j < pend { m.pending_values_mut(&id, None, false).push(OsString::from("v")); j += 1; }
        if pend == 0 { let _ = m.pending_values_mut(&id, None, false); }
    }
    let cnt = if has_pending && same { pend } else { 0 };
    assert!(m.needs_more_vals(&a) == (cnt < hi));
    kani::cover!(has_pending && same && pend == 2 && hi == 2);
    kani::cover!(has_pending && !same && pend == 2 && hi == 1);
    std::mem::forget(m);
    std::mem::forget(a);
}
