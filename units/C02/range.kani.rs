use super::*;

/// "following option values up to the option's value count": accepts_more(n) <=> n < max, all usize.
#[kani::proof]
pub(super) fn range_accessors() {
    let lo: usize = kani::any();
    let hi: usize = kani::any();
    kani::assume(lo <= hi);
    let r = ValueRange::raw(lo, hi);
    let n: usize = kani::any();
    assert!(r.accepts_more(n) == (n < hi));
    assert!(r.min_values() == lo && r.max_values() == hi);
    assert!(r.takes_values() == (hi != 0));
    assert!(r.is_fixed() == (lo == hi));
    assert!(r.num_values() == if lo == hi { Some(lo) } else { None });
    assert!(r.is_unbounded() == (hi == usize::MAX));
    kani::cover!(lo == hi && lo > 1);
    kani::cover!(hi == usize::MAX);
    kani::cover!(hi == 0);
}

/// every documented way of writing a value count denotes the inclusive range it reads as
#[kani::proof]
pub(super) fn range_conversions() {
    let a: usize = kani::any();
    let b: usize = kani::any();
    let k: u8 = kani::any();
    kani::assume(k < 7);
    let (r, lo, hi): (ValueRange, usize, usize) = match k {
        0 => (a.into(), a, a),
        1 => { kani::assume(a < b); ((a..b).into(), a, b - 1) }
        2 => ((..).into(), 0, usize::MAX),
        3 => ((a..).into(), a, usize::MAX),
        4 => { kani::assume(b > 0); ((..b).into(), 0, b - 1) }
        5 => { kani::assume(a <= b); ((a..=b).into(), a, b) }
        _ => ((..=b).into(), 0, b),
    };
    assert!(r.min_values() == lo && r.max_values() == hi);
    assert!(r.min_values() <= r.max_values());
    kani::cover!(k == 1 && a + 1 == b);
    kani::cover!(k == 4 && b == 1);
    kani::cover!(k == 6);
    // the empty exclusive range `..0` saturates to [0,0] (takes no values)
    let e: ValueRange = (..0usize).into();
    assert!(e.min_values() == 0 && e.max_values() == 0);
}
