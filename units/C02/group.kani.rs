use super::*;
use std::os::unix::ffi::OsStrExt as _;

// C02-group: "the raw values reported for each argument, grouped per occurrence and in order":
// whole-view agreement of MatchedArg with a list-of-lists model under every sequence of OPS
// operations from {new_val_group, append_val, push_index}.
const G: usize = 4;   // max groups / values per group / indices in the model

fn tag_of(os: &OsString) -> u8 { let b = os.as_os_str().as_bytes(); if b.len() == 1 { b[0] } else { 0 } }

fn group_ops<const OPS: usize>() {
    let mut m = MatchedArg::new_group();
    let mut groups: [[u8; G]; G] = [[0; G]; G];
    let mut glen: [usize; G] = [0; G];
    let mut ng: usize = 0;
    let mut idx: [usize; G] = [0; G];
    let mut ni: usize = 0;
    let mut k = 0;
    while k < OPS {
        let op: u8 = kani::any();
        kani::assume(op < 3);
        match op {
            0 => { m.new_val_group(); glen[ng] = 0; ng += 1; }
            1 => {
                // precondition of append_val (the parser always opens a group first: start_custom_arg)
                kani::assume(ng > 0);
                let t: u8 = kani::any();
                kani::assume(t >= b'a' && t <= b'z');
                m.append_val(AnyValue::new(t), OsString::from(OsStr::from_bytes(&[t])));
                groups[ng - 1][glen[ng - 1]] = t;
                glen[ng - 1] += 1;
            }
            _ => { let i: usize = kani::any(); m.push_index(i); idx[ni] = i; ni += 1; }
        }
        k += 1;
    }
    // whole view
    assert!(m.raw_vals.len() == ng && m.vals.len() == ng);
    let mut total = 0usize;
    let mut g = 0;
    while g < ng {
        assert!(m.raw_vals[g].len() == glen[g] && m.vals[g].len() == glen[g]);
        let mut j = 0;
        while j < glen[g] { assert!(tag_of(&m.raw_vals[g][j]) == groups[g][j]); j += 1; }
        total += glen[g];
        g += 1;
    }
    assert!(m.num_vals() == total);
    assert!(m.indices.len() == ni);
    let mut j = 0;
    while j < ni { assert!(m.get_index(j) == Some(idx[j])); j += 1; }
    assert!(m.get_index(ni).is_none());
    // an empty occurrence keeps its boundary
    kani::cover!(ng == 2 && glen[0] == 0 && glen[1] == 1);
    kani::cover!(ng == 1 && glen[0] == 2);
    kani::cover!(ni == 2);
    std::mem::forget(m);
}

#[kani::proof]
#[kani::unwind(6)]
pub(super) fn group_ops_3() { group_ops::<3>(); }

#[kani::proof]
#[kani::unwind(7)]
pub(super) fn group_ops_4() { group_ops::<4>(); }
