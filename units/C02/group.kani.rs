use super::*;
use std::os::unix::ffi::OsStrExt as _;

// C02-group: "the raw values reported for each argument, grouped per occurrence and in order": the value
// groups of a MatchedArg after every sequence (<= 3 steps after the first) of new_val_group (G) / append_val (A),
// with symbolic values.  One harness per sequence shape: a single harness over a symbolic operation choice
// makes the Vec lengths symbolic and exhausts CBMC's memory (> 17 GB).
fn tag_of(os: &OsString) -> u8 { let b = os.as_os_str().as_bytes(); if b.len() == 1 { b[0] } else { 0 } }

fn run_shape(shape: &[u8]) {
    let mut m = MatchedArg::new_group();
    // model: group sizes and tags
    let mut glen: [usize; 4] = [0; 4];
    let mut tags: [[u8; 4]; 4] = [[0; 4]; 4];
    let mut ng = 0usize;
    let mut k = 0;
    while k < shape.len() {
        if shape[k] == b'G' {
            m.new_val_group();
            ng += 1;
        } else {
            let t: u8 = kani::any();
            kani::assume(t >= b'a' && t <= b'z');
            m.append_val(AnyValue::new(t), OsString::from(OsStr::from_bytes(&[t])));
            tags[ng - 1][glen[ng - 1]] = t;
            glen[ng - 1] += 1;
        }
        k += 1;
    }
    let i: usize = kani::any();
    m.push_index(i);
    // whole view: group boundaries (an empty occurrence keeps its own group), values in order, nothing else
    assert!(m.raw_vals.len() == ng && m.vals.len() == ng);
    let mut total = 0usize;
    let mut g = 0;
    while g < ng {
        assert!(m.raw_vals[g].len() == glen[g] && m.vals[g].len() == glen[g]);
        let mut j = 0;
        while j < glen[g] { assert!(tag_of(&m.raw_vals[g][j]) == tags[g][j]); j += 1; }
        total += glen[g];
        g += 1;
    }
    assert!(m.num_vals() == total);
    assert!(m.get_index(0) == Some(i) && m.get_index(1).is_none());
    kani::cover!(true);
    std::mem::forget(m);
}

macro_rules! shape {
    ($name:ident, $s:expr) => {
        #[kani::proof]
        #[kani::unwind(6)]
        pub(super) fn $name() { run_shape($s); }
    };
}
shape!(groups_g, b"G");
shape!(groups_gg, b"GG");
shape!(groups_ga, b"GA");
shape!(groups_ggg, b"GGG");
shape!(groups_gga, b"GGA");
shape!(groups_gag, b"GAG");
shape!(groups_gaa, b"GAA");
shape!(groups_ggaa, b"GGAA");
shape!(groups_gaga, b"GAGA");
