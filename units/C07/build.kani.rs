use super::*;

/// C07 "default action and value-count inference" (Arg::_build): no action given =>
/// num_args == 0 -> SetTrue; unbounded positional -> Append; else Set.  A given action is kept.
/// Afterwards num_vals is Some: the user's, else the action's default.
#[kani::proof]
#[kani::unwind(8)]
pub(super) fn build_infers_action() {
    let positional: bool = kani::any();
    let given_action: u8 = kani::any();
    kani::assume(given_action < 4);
    let range_kind: u8 = kani::any();
    kani::assume(range_kind < 4);
    let mut arg = Arg::new("a");
    if !positional { arg = arg.short('a'); }
    let user_range: Option<ValueRange> = match range_kind {
        0 => None,
        1 => Some(ValueRange::EMPTY),
        2 => Some(ValueRange::raw(1, usize::MAX)),
        _ => { let lo: usize = kani::any(); let hi: usize = kani::any(); kani::assume(lo <= hi && hi != 0 && hi != usize::MAX); Some(ValueRange::raw(lo, hi)) }
    };
    if let Some(r) = user_range { arg = arg.num_args(r); }
    match given_action { 1 => { arg = arg.action(ArgAction::Count); } 2 => { arg = arg.action(ArgAction::Append); } 3 => { arg = arg.action(ArgAction::SetFalse); } _ => {} }
    arg._build();
    let got = arg.get_action();
    match given_action {
        1 => assert!(matches!(got, ArgAction::Count)),
        2 => assert!(matches!(got, ArgAction::Append)),
        3 => assert!(matches!(got, ArgAction::SetFalse)),
        _ => {
            if range_kind == 1 { assert!(matches!(got, ArgAction::SetTrue)); }
            else if positional && range_kind == 2 { assert!(matches!(got, ArgAction::Append)); }
            else { assert!(matches!(got, ArgAction::Set)); }
        }
    }
    let nv = arg.get_num_args();
    assert!(nv.is_some());
    match user_range {
        Some(r) => assert!(nv == Some(r)),
        None => assert!(nv == Some(got.default_num_args())),
    }
    // action defaults installed: a flag that was given no default_value gets the action's
    if matches!(got, ArgAction::SetTrue) { assert!(arg.default_vals.len() == 1 && arg.default_missing_vals.len() == 1); }
    if matches!(got, ArgAction::Count) { assert!(arg.default_vals.len() == 1 && arg.default_missing_vals.is_empty()); }
    if matches!(got, ArgAction::Set) { assert!(arg.default_vals.is_empty()); }
    kani::cover!(given_action == 0 && positional && range_kind == 2);
    kani::cover!(given_action == 0 && range_kind == 1);
    kani::cover!(given_action == 0 && !positional && range_kind == 3);
    std::mem::forget(arg);
}
