// C07 / C05 / C08 / C02 — the delimiter-splitting loop of Parser::react (the statements that the Verus unit
// C07-react abstracts under rule X7), extracted from the real function on every run (rule X8) and checked against
// an independent table: a value containing the delimiter contributes ALL its pieces, empty ones included, in
// order; a value without it, or the trailing value when `dont_delimit_trailing_values` is set, is kept whole.
// BOUNDED: value lists of length <= 2 over eight fixed strings of at most three bytes.
use super::*;
use std::ffi::OsString;

//@fragment split_loop file=clap_builder/src/parser/parser.rs item=Parser::react
//@from let mut split_raw_vals = Vec::with_capacity(raw_vals.len());
//@to raw_vals = split_raw_vals;
//@subst self.cmd.is_dont_delimit_trailing_values_set() => dont_delimit_trailing
//@endfragment

fn frag_split(mut raw_vals: Vec<OsString>, val_delim: &str, dont_delimit_trailing: bool, trailing_idx: Option<usize>) -> Vec<OsString> {
    /*@FRAGMENT split_loop*/
    raw_vals
}

const TABLE: [(&str, &[&str]); 8] = [
    ("", &[""]),
    ("a", &["a"]),
    (",", &["", ""]),
    ("a,", &["a", ""]),
    (",a", &["", "a"]),
    (",,", &["", "", ""]),
    ("a,b", &["a", "b"]),
    ("ab", &["ab"]),
];

fn lit(i: u8) -> &'static str {
    match i { 0 => TABLE[0].0, 1 => TABLE[1].0, 2 => TABLE[2].0, 3 => TABLE[3].0, 4 => TABLE[4].0, 5 => TABLE[5].0, 6 => TABLE[6].0, _ => TABLE[7].0 }
}
fn pieces(i: u8) -> &'static [&'static str] {
    match i { 0 => TABLE[0].1, 1 => TABLE[1].1, 2 => TABLE[2].1, 3 => TABLE[3].1, 4 => TABLE[4].1, 5 => TABLE[5].1, 6 => TABLE[6].1, _ => TABLE[7].1 }
}
fn any_trailing() -> Option<usize> {
    let t: u8 = kani::any();
    match t { 0 => None, 1 => Some(0), 2 => Some(1), _ => Some(2) }
}
fn check_one(out: &[OsString], at: usize, i: u8, whole: bool) -> usize {
    if whole {
        assert!(at < out.len() && out[at] == OsString::from(lit(i)));
        at + 1
    } else {
        let ps = pieces(i);
        let mut k = 0;
        while k < ps.len() {
            assert!(at + k < out.len() && out[at + k] == OsString::from(ps[k]));
            k += 1;
        }
        at + ps.len()
    }
}

fn one(i: u8, dont: bool, trailing_idx: Option<usize>) {
    let out = frag_split(vec![OsString::from(lit(i))], ",", dont, trailing_idx);
    let whole = !lit(i).contains(',') || (dont && trailing_idx == Some(0));
    let n = check_one(&out, 0, i, whole);
    assert!(out.len() == n);
}
fn two(i: u8, j: u8, dont: bool, trailing_idx: Option<usize>) {
    let out = frag_split(vec![OsString::from(lit(i)), OsString::from(lit(j))], ",", dont, trailing_idx);
    let whole_i = !lit(i).contains(',') || (dont && trailing_idx == Some(0));
    let whole_j = !lit(j).contains(',') || (dont && matches!(trailing_idx, Some(t) if t <= 1));
    let n = check_one(&out, 0, i, whole_i);
    let n = check_one(&out, n, j, whole_j);
    assert!(out.len() == n);
}

// one string per harness (CBMC's cost grows much faster than linearly in the number of calls): the two shapes of a delimited
// value and an undelimited one, concretely, under every setting
#[kani::proof]
#[kani::unwind(9)]
fn split_value_comma() {
    let dont: bool = kani::any();
    let trailing_idx = any_trailing();
    one(2, dont, trailing_idx);
    kani::cover!(dont && trailing_idx == Some(0));
}
#[kani::proof]
#[kani::unwind(9)]
fn split_value_a_comma_b() {
    let dont: bool = kani::any();
    let trailing_idx = any_trailing();
    one(6, dont, trailing_idx);
    kani::cover!(dont && trailing_idx == Some(0));
}
#[kani::proof]
#[kani::unwind(9)]
fn split_value_plain() {
    let dont: bool = kani::any();
    let trailing_idx = any_trailing();
    one(7, dont, trailing_idx);
    kani::cover!(dont && trailing_idx == Some(0));
}

// every one of the eight strings, concretely (the strings are constants: no symbolic pointers), under every setting
#[kani::proof]
#[kani::unwind(9)]
fn split_one_value() {
    let dont: bool = kani::any();
    let trailing_idx = any_trailing();
    let mut i = 0u8;
    while i < 8 {
        one(i, dont, trailing_idx);
        i += 1;
    }
    kani::cover!(dont && trailing_idx == Some(0));
}

// a pair: the exemption of the trailing value is by position in the list
#[kani::proof]
#[kani::unwind(9)]
fn split_two_values() {
    let dont: bool = kani::any();
    let trailing_idx = any_trailing();
    two(2, 6, dont, trailing_idx);
    kani::cover!(dont && trailing_idx == Some(1));
}
