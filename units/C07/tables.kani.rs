use super::*;
use std::ffi::OsStr;

fn any_action() -> (ArgAction, u8) {
    let k: u8 = kani::any();
    kani::assume(k < 9);
    // exhaustive on purpose (no wildcard when read back below)
    let a = match k {
        0 => ArgAction::Set, 1 => ArgAction::Append, 2 => ArgAction::SetTrue, 3 => ArgAction::SetFalse,
        4 => ArgAction::Count, 5 => ArgAction::Help, 6 => ArgAction::HelpShort, 7 => ArgAction::HelpLong,
        _ => ArgAction::Version,
    };
    (a, k)
}

fn is(o: Option<&'static OsStr>, s: &str) -> bool {
    match o { Some(v) => v.as_encoded_bytes() == s.as_bytes(), None => false }
}

/// C07: "`SetTrue`/`SetFalse` yield the flag's truth value with the opposite default", Count starts at 0,
/// flags take no values, Set/Append take one value per occurrence by default.
#[kani::proof]
#[kani::unwind(7)]
pub(super) fn action_tables() {
    let (a, _k) = any_action();
    let dv = a.default_value();
    let dm = a.default_missing_value();
    let n = a.default_num_args();
    match a {
        ArgAction::SetTrue => { assert!(is(dv, "false") && is(dm, "true")); assert!(!a.takes_values()); assert!(n == ValueRange::EMPTY); }
        ArgAction::SetFalse => { assert!(is(dv, "true") && is(dm, "false")); assert!(!a.takes_values()); assert!(n == ValueRange::EMPTY); }
        ArgAction::Count => { assert!(is(dv, "0") && dm.is_none()); assert!(!a.takes_values()); assert!(n == ValueRange::EMPTY); }
        ArgAction::Set | ArgAction::Append => { assert!(dv.is_none() && dm.is_none()); assert!(a.takes_values()); assert!(n == ValueRange::SINGLE); }
        ArgAction::Help | ArgAction::HelpShort | ArgAction::HelpLong | ArgAction::Version => {
            assert!(dv.is_none() && dm.is_none()); assert!(!a.takes_values()); assert!(n == ValueRange::EMPTY);
        }
    }
    // a flag's default value count never admits a value; a value-taking action's always does
    assert!(a.takes_values() == n.takes_values());
    kani::cover!(matches!(a, ArgAction::Count));
    kani::cover!(matches!(a, ArgAction::SetFalse));
    kani::cover!(matches!(a, ArgAction::Append));
}
