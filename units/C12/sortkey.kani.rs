use super::*;

// C12 "every argument ... that is not hidden for that help mode is listed": `write_args` files the shown
// arguments in a BTreeMap under `sort_key(arg)`, so two different options with the same key would silently
// overwrite each other.  Contract of `option_sort_key`: options with different ids get different keys
// (for every short flag character, every long name / id up to 2 characters over a small alphabet).
const ALPHA: [u8; 4] = [b'a', b'A', b'0', b'1'];

fn name(sel: [u8; 2], len: usize) -> &'static str {
    // all names of length 1..=2 over ALPHA, as 'static strings
    const N1: [&str; 4] = ["a", "A", "0", "1"];
    const N2: [[&str; 4]; 4] = [["aa", "aA", "a0", "a1"], ["Aa", "AA", "A0", "A1"], ["0a", "0A", "00", "01"], ["1a", "1A", "10", "11"]];
    if len == 1 { N1[sel[0] as usize] } else { N2[sel[0] as usize][sel[1] as usize] }
}

fn any_option(id: &'static str) -> Arg {
    let mut a = Arg::new(id);
    let has_short: bool = kani::any();
    if has_short {
        let c: char = kani::any();
        kani::assume(c != '-');      // Arg::short's own precondition
        a = a.short(c);
    }
    let has_long: bool = kani::any();
    if has_long || !has_short {
        let sel: [u8; 2] = kani::any();
        kani::assume(sel[0] < 4 && sel[1] < 4);
        let len: usize = kani::any();
        kani::assume(len == 1 || len == 2);
        a = a.long(name(sel, len));
    }
    a
}

#[kani::proof]
#[kani::unwind(6)]
pub(super) fn option_sort_keys_distinct() {
    let a = any_option("x");
    let b = any_option("y");
    // same display order (e.g. `next_display_order(None)`); different flags (clap's own validity gate rejects
    // two options sharing a short or a long)
    kani::assume(a.get_short().is_none() || a.get_short() != b.get_short());
    kani::assume(a.get_long().is_none() || a.get_long() != b.get_long());
    let ka = option_sort_key(&a);
    let kb = option_sort_key(&b);
    assert!(ka.0 == kb.0);
    assert!(ka.1 != kb.1);
    kani::cover!(a.get_short().is_some() && b.get_short().is_none());
    kani::cover!(a.get_short().is_some() && b.get_short().is_some());
    kani::cover!(a.get_short().is_none() && b.get_short().is_none());
    std::mem::forget(ka); std::mem::forget(kb); std::mem::forget(a); std::mem::forget(b);
}
