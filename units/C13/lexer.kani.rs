use super::*;
use std::os::unix::ffi::OsStrExt as _;

fn any_os<'a, const N: usize>(buf: &'a [u8; N]) -> (&'a OsStr, usize) {
    let len: usize = kani::any();
    kani::assume(len <= N);
    (OsStr::from_bytes(&buf[..len]), len)
}

// ---------- C13-class: the classifications are mutually consistent ----------
// Model written from the property statement / rustdoc: escape = exactly "--", stdio = exactly "-",
// long = "--" + at least one more byte, short = "-" + at least one byte that is not '-', else plain.
fn classification<const N: usize>() {
    let buf: [u8; N] = kani::any();
    let (os, len) = any_os(&buf);
    let arg = ParsedArg::new(os);
    let b = &buf[..len];
    let m_escape = len == 2 && b[0] == b'-' && b[1] == b'-';
    let m_stdio = len == 1 && b[0] == b'-';
    let m_long = len > 2 && b[0] == b'-' && b[1] == b'-';
    let m_short = len >= 2 && b[0] == b'-' && b[1] != b'-';
    assert!(arg.is_empty() == (len == 0));
    assert!(arg.is_escape() == m_escape);
    assert!(arg.is_stdio() == m_stdio);
    assert!(arg.is_long() == m_long);
    assert!(arg.is_short() == m_short);
    // exactly one of escape / stdio / long / short / plain
    let n = arg.is_escape() as u8 + arg.is_stdio() as u8 + arg.is_long() as u8 + arg.is_short() as u8;
    assert!(n <= 1);
    // the decompositions exist exactly for their class
    let tl = arg.to_long().is_some();
    assert!(tl == arg.is_long());
    let ts = arg.to_short().is_some();
    assert!(ts == arg.is_short());
    // a negative number is a short-looking argument with at least one digit; never stdio/escape/long
    if arg.is_negative_number() {
        assert!(arg.is_short());
        let mut has_digit = false;
        let mut i = 0;
        while i < len { if b[i] >= b'0' && b[i] <= b'9' { has_digit = true; } i += 1; }
        assert!(has_digit);
    }
    assert!(arg.to_value_os().as_bytes().len() == len);
    kani::cover!(m_escape);
    kani::cover!(m_stdio);
    kani::cover!(m_long && len == N);
    kani::cover!(m_short && len == N);
    kani::cover!(arg.is_negative_number());
}

#[kani::proof]
#[kani::unwind(6)]
pub(super) fn classification_3() { classification::<3>(); }

#[kani::proof]
#[kani::unwind(8)]
pub(super) fn classification_5() { classification::<5>(); }

// the two views of "negative number" agree: ShortFlags::is_negative_number (asked before any flag is read, as its rustdoc says)
// and ParsedArg::is_negative_number — also for arguments with a non-UTF-8 tail
fn negative_number_views_agree<const N: usize>() {
    let buf: [u8; N] = kani::any();
    let (os, len) = any_os(&buf);
    let arg = ParsedArg::new(os);
    match arg.to_short() {
        Some(sf) => { assert!(sf.is_negative_number() == arg.is_negative_number()); }
        None => { assert!(!arg.is_negative_number()); }
    }
    kani::cover!(arg.is_negative_number());
    kani::cover!(arg.is_short() && !arg.is_negative_number() && len == N);
}

#[kani::proof]
#[kani::unwind(6)]
pub(super) fn negative_number_views_agree_3() { negative_number_views_agree::<3>(); }

#[kani::proof]
#[kani::unwind(7)]
pub(super) fn negative_number_views_agree_4() { negative_number_views_agree::<4>(); }

// ---------- C13-long: "--" + name [+ "=" + value] re-assembles to the original bytes ----------
fn to_long_reassembles<const N: usize>() {
    let buf: [u8; N] = kani::any();
    let (os, _len) = any_os(&buf);
    let arg = ParsedArg::new(os);
    let bytes = os.as_bytes();
    match arg.to_long() {
        Some((flag, value)) => {
            let fb = match flag { Ok(s) => s.as_bytes(), Err(o) => o.as_bytes() };
            // Ok(name) exactly when the name is UTF-8
            assert!(flag.is_ok() == std::str::from_utf8(fb).is_ok());
            assert!(bytes[0] == b'-' && bytes[1] == b'-');
            match value {
                None => {
                    assert!(bytes.len() == 2 + fb.len());
                    let mut i = 0;
                    while i < fb.len() { assert!(bytes[2 + i] == fb[i]); assert!(fb[i] != b'='); i += 1; }
                }
                Some(v) => {
                    let vb = v.as_bytes();
                    assert!(bytes.len() == 3 + fb.len() + vb.len());
                    assert!(bytes[2 + fb.len()] == b'=');
                    // split at the FIRST '=': the name holds none
                    let mut i = 0;
                    while i < fb.len() { assert!(bytes[2 + i] == fb[i]); assert!(fb[i] != b'='); i += 1; }
                    let mut j = 0;
                    while j < vb.len() { assert!(bytes[3 + fb.len() + j] == vb[j]); j += 1; }
                    kani::cover!(true);
                }
            }
        }
        None => { assert!(!arg.is_long()); }
    }
    kani::cover!(arg.is_long());
}

#[kani::proof]
#[kani::unwind(5)]
pub(super) fn to_long_reassembles_3() { to_long_reassembles::<3>(); }

#[kani::proof]
#[kani::unwind(6)]
pub(super) fn to_long_reassembles_4() { to_long_reassembles::<4>(); }

#[kani::proof]
#[kani::unwind(7)]
pub(super) fn to_long_reassembles_5() { to_long_reassembles::<5>(); }

// ---------- C13-short: walking a short cluster ----------
// k flags then the value: chars of the maximal valid UTF-8 prefix in order, then Err(tail) once, then None;
// `next_value_os` returns exactly the unread bytes; the split index is a sum of char lengths (a UTF-8 boundary).
fn short_walk<const N: usize>() {
    let buf: [u8; N] = kani::any();
    let len: usize = kani::any();
    kani::assume(len >= 2 && len <= N);
    kani::assume(buf[0] == b'-' && buf[1] != b'-');
    let os = OsStr::from_bytes(&buf[..len]);
    let arg = ParsedArg::new(os);
    let mut sf = match arg.to_short() { Some(s) => s, None => { assert!(false); return; } };
    assert!(!sf.is_empty());
    let k: usize = kani::any();
    kani::assume(k <= 3);
    let mut consumed = 1usize; // the leading '-'
    let mut j = 0;
    while j < k {
        match sf.next_flag() {
            Some(Ok(c)) => {
                // the yielded char is the next char of the cluster
                let mut tmp = [0u8; 4];
                let enc = c.encode_utf8(&mut tmp).as_bytes();
                let mut t = 0;
                while t < enc.len() { assert!(buf[consumed + t] == enc[t]); t += 1; }
                consumed += c.len_utf8();
            }
            Some(Err(rest)) => {
                // the non-UTF-8 tail, exactly the unread bytes, reported once
                let rb = rest.as_bytes();
                assert!(consumed + rb.len() == len);
                let mut t = 0;
                while t < rb.len() { assert!(rb[t] == buf[consumed + t]); t += 1; }
                assert!(std::str::from_utf8(rb).is_err());
                assert!(sf.next_flag().is_none());
                assert!(sf.is_empty());
                kani::cover!(true);
                return;
            }
            None => { assert!(consumed == len); assert!(sf.is_empty()); return; }
        }
        j += 1;
    }
    match sf.next_value_os() {
        Some(v) => {
            let vb = v.as_bytes();
            assert!(consumed + vb.len() == len);
            let mut t = 0;
            while t < vb.len() { assert!(vb[t] == buf[consumed + t]); t += 1; }
            assert!(sf.next_flag().is_none());
            assert!(sf.next_value_os().is_none());
            assert!(sf.is_empty());
            kani::cover!(k == 1 && vb.len() >= 1);
        }
        None => { assert!(consumed == len); }
    }
    kani::cover!(k >= 2);
}

#[kani::proof]
#[kani::unwind(5)]
pub(super) fn short_walk_3() { short_walk::<3>(); }

#[kani::proof]
#[kani::unwind(6)]
pub(super) fn short_walk_4() { short_walk::<4>(); }

#[kani::proof]
#[kani::unwind(7)]
pub(super) fn short_walk_5() { short_walk::<5>(); }

// ---------- C13-number: is_number == the DFA read from its doc comment ----------
fn dfa_is_number(b: &[u8]) -> bool {
    // all digits plus an optional single dot after some digits, optional exponent e/E not first and
    // not last; "looks like an integer or a float" - the empty string is not a number
    if b.is_empty() { return false; }
    let mut seen_dot = false;
    let mut e_pos: Option<usize> = None;
    let mut i = 0;
    while i < b.len() {
        let c = b[i];
        if c >= b'0' && c <= b'9' { }
        else if c == b'.' { if seen_dot || e_pos.is_some() || i == 0 { return false; } seen_dot = true; }
        else if c == b'e' || c == b'E' { if e_pos.is_some() || i == 0 { return false; } e_pos = Some(i); }
        else { return false; }
        i += 1;
    }
    match e_pos { Some(p) => p + 1 != b.len(), None => true }
}

fn is_number_matches_dfa<const N: usize>() {
    let buf: [u8; N] = kani::any();
    let len: usize = kani::any();
    kani::assume(len <= N);
    let mut i = 0;
    while i < N { kani::assume(buf[i] < 128); i += 1; }
    let s = std::str::from_utf8(&buf[..len]).unwrap();
    kani::cover!(len == N);
    kani::cover!(len == 0);
    assert!(is_number(s) == dfa_is_number(&buf[..len]));
}

#[kani::proof]
#[kani::unwind(6)]
pub(super) fn is_number_matches_dfa_4() { is_number_matches_dfa::<4>(); }

#[kani::proof]
#[kani::unwind(8)]
pub(super) fn is_number_matches_dfa_6() { is_number_matches_dfa::<6>(); }
