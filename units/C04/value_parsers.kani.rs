use super::*;
use crate::builder::*;
use std::ffi::OsStr;

// Error rendering is stubbed: these units are about WHICH strings are accepted and what value comes
// out, not about the message (listed as assumptions in the evidence).
fn stub_usage<'cmd>(_u: &crate::output::Usage<'cmd>, _used: &[crate::util::Id]) -> Option<StyledStr> where 'cmd: 'cmd { None }
fn stub_format(_a: std::fmt::Arguments<'_>) -> String { String::new() }
fn stub_with_cmd<F: crate::error::ErrorFormatter>(e: crate::error::Error<F>, _cmd: &crate::Command) -> crate::error::Error<F> { e }
fn stub_lossy(_s: &OsStr) -> std::borrow::Cow<'_, str> { std::borrow::Cow::Borrowed("") }

fn os(b: &[u8]) -> &OsStr { std::os::unix::ffi::OsStrExt::from_bytes(b) }

// ---------- C04-int (a): language of RangedI64ValueParser<u8>, all strings up to N bytes ----------
// independent reading of the property: "precisely the decimal integers inside both the declared
// range and the target type": optional sign, then 1+ ASCII digits (i128 arithmetic, no wrapping)
fn decimal(b: &[u8]) -> Option<i128> {
    if b.is_empty() { return None; }
    let (neg, digs) = match b[0] { b'-' => (true, &b[1..]), b'+' => (false, &b[1..]), _ => (false, b) };
    if digs.is_empty() { return None; }
    let mut v: i128 = 0;
    let mut i = 0;
    while i < digs.len() {
        let d = digs[i];
        if d < b'0' || d > b'9' { return None; }
        v = v * 10 + (d - b'0') as i128;
        i += 1;
    }
    Some(if neg { -v } else { v })
}

fn ranged_u8_language<const N: usize>() {
    let cmd = crate::Command::new("x");
    let buf: [u8; N] = kani::any();
    let len: usize = kani::any();
    kani::assume(len <= N);
    let b = &buf[..len];
    let lo: i64 = kani::any();
    let hi: i64 = kani::any();
    kani::assume(lo <= hi);
    let o = decimal(b);
    let p: RangedI64ValueParser<u8> = RangedI64ValueParser::new().range(lo..=hi);
    let r = TypedValueParser::parse_ref(&p, &cmd, None, os(b));
    let admitted = matches!(o, Some(w) if w >= lo as i128 && w <= hi as i128 && w >= 0 && w <= 255);
    match r {
        Ok(v) => { assert!(admitted); assert!(o == Some(v as i128)); kani::cover!(v == 255); kani::cover!(len == N); }
        Err(e) => { assert!(!admitted); kani::cover!(o.is_some()); kani::cover!(o.is_none()); std::mem::forget(e); }
    }
    std::mem::forget(cmd);
}

#[kani::proof]
#[kani::unwind(5)]
#[kani::stub(crate::output::Usage::create_usage_with_title, stub_usage)]
#[kani::stub(alloc::fmt::format, stub_format)]
#[kani::stub(crate::error::Error::with_cmd, stub_with_cmd)]
#[kani::stub(std::ffi::OsStr::to_string_lossy, stub_lossy)]
pub(super) fn ranged_u8_language_3() { ranged_u8_language::<3>(); }

#[kani::proof]
#[kani::unwind(6)]
#[kani::stub(crate::output::Usage::create_usage_with_title, stub_usage)]
#[kani::stub(alloc::fmt::format, stub_format)]
#[kani::stub(crate::error::Error::with_cmd, stub_with_cmd)]
#[kani::stub(std::ffi::OsStr::to_string_lossy, stub_lossy)]
pub(super) fn ranged_u8_language_4() { ranged_u8_language::<4>(); }

// ---------- C04-int (b): the narrowing step for every i64, every range, six target types ----------
// `<i64 as FromStr>::from_str` (std's decimal parser, ASSUMED correct) is replaced by a decoder of ten
// 7-bit ASCII bytes, so the harness chooses the parsed value v over the whole of i64; an 11th byte
// selects the error result.  What is checked is clap's own code after the parse: bounds.contains(v),
// then T::try_from(v) — "never wrapping or truncating".
fn enc(v: i64, fail: bool) -> [u8; 11] {
    let mut b = [0u8; 11];
    let u = v as u64;
    let mut i = 0;
    while i < 10 { b[i] = ((u >> (7 * i)) & 0x7f) as u8; i += 1; }
    b[10] = if fail { 1 } else { 0 };
    b
}
fn stub_i64_from_str(s: &str) -> Result<i64, std::num::ParseIntError> {
    let b = s.as_bytes();
    if b.len() != 11 || b[10] != 0 { return "".parse::<u8>().map(|_| 0i64); }
    let mut u: u64 = 0;
    let mut i = 0;
    while i < 10 { u |= ((b[i] & 0x7f) as u64) << (7 * i); i += 1; }
    Ok(u as i64)
}

macro_rules! narrowing {
    ($name:ident, $t:ty) => {
        #[kani::proof]
        #[kani::unwind(13)]
        #[kani::stub(<i64 as std::str::FromStr>::from_str, stub_i64_from_str)]
        #[kani::stub(crate::output::Usage::create_usage_with_title, stub_usage)]
        #[kani::stub(alloc::fmt::format, stub_format)]
        #[kani::stub(crate::error::Error::with_cmd, stub_with_cmd)]
        #[kani::stub(std::ffi::OsStr::to_string_lossy, stub_lossy)]
        pub(super) fn $name() {
            let cmd = crate::Command::new("x");
            let v: i64 = kani::any();
            let fail: bool = kani::any();
            let lo: i64 = kani::any();
            let hi: i64 = kani::any();
            kani::assume(lo <= hi);
            let b = enc(v, fail);
            let p: RangedI64ValueParser<$t> = RangedI64ValueParser::new().range(lo..=hi);
            let r = TypedValueParser::parse_ref(&p, &cmd, None, os(&b));
            let in_t = v >= <$t>::MIN as i64 && v <= <$t>::MAX as i64;
            match r {
                Ok(t) => { assert!(!fail && lo <= v && v <= hi && in_t); assert!(t as i64 == v); kani::cover!(v == <$t>::MAX as i64); kani::cover!(v == <$t>::MIN as i64); }
                Err(e) => { assert!(fail || v < lo || v > hi || !in_t); kani::cover!(!fail && lo <= v && v <= hi); kani::cover!(fail); std::mem::forget(e); }
            }
            std::mem::forget(cmd);
        }
    };
}
narrowing!(narrowing_u8, u8);
narrowing!(narrowing_i8, i8);
narrowing!(narrowing_u16, u16);
narrowing!(narrowing_i16, i16);
narrowing!(narrowing_u32, u32);
narrowing!(narrowing_i32, i32);


// ---------- the same narrowing step for RangedU64ValueParser: every u64, every range, three target types ----------
fn enc_u(v: u64, fail: bool) -> [u8; 11] {
    let mut b = [0u8; 11];
    let mut i = 0;
    while i < 10 { b[i] = ((v >> (7 * i)) & 0x7f) as u8; i += 1; }
    b[10] = if fail { 1 } else { 0 };
    b
}
fn stub_u64_from_str(s: &str) -> Result<u64, std::num::ParseIntError> {
    let b = s.as_bytes();
    if b.len() != 11 || b[10] != 0 { return "".parse::<u8>().map(|_| 0u64); }
    let mut u: u64 = 0;
    let mut i = 0;
    while i < 10 { u |= ((b[i] & 0x7f) as u64) << (7 * i); i += 1; }
    Ok(u)
}
macro_rules! narrowing_u {
    ($name:ident, $t:ty) => {
        #[kani::proof]
        #[kani::unwind(13)]
        #[kani::stub(<u64 as std::str::FromStr>::from_str, stub_u64_from_str)]
        #[kani::stub(crate::output::Usage::create_usage_with_title, stub_usage)]
        #[kani::stub(alloc::fmt::format, stub_format)]
        #[kani::stub(crate::error::Error::with_cmd, stub_with_cmd)]
        #[kani::stub(std::ffi::OsStr::to_string_lossy, stub_lossy)]
        pub(super) fn $name() {
            let cmd = crate::Command::new("x");
            let v: u64 = kani::any();
            let fail: bool = kani::any();
            let lo: u64 = kani::any();
            let hi: u64 = kani::any();
            kani::assume(lo <= hi);
            let b = enc_u(v, fail);
            let p: RangedU64ValueParser<$t> = RangedU64ValueParser::new().range(lo..=hi);
            let r = TypedValueParser::parse_ref(&p, &cmd, None, os(&b));
            let in_t = v <= <$t>::MAX as u64;
            match r {
                Ok(t) => { assert!(!fail && lo <= v && v <= hi && in_t); assert!(t as u64 == v); kani::cover!(v == <$t>::MAX as u64); kani::cover!(v == 0); }
                Err(e) => { assert!(fail || v < lo || v > hi || !in_t); kani::cover!(!fail && lo <= v && v <= hi); kani::cover!(fail); std::mem::forget(e); }
            }
            std::mem::forget(cmd);
        }
    };
}
narrowing_u!(narrowing_u64_u8, u8);
narrowing_u!(narrowing_u64_u16, u16);
narrowing_u!(narrowing_u64_u32, u32);

// ---------- C04-range: `.range(r)` narrows to exactly r ----------
// "inside the declared range": for EVERY kind of range (a..b, a..=b, ..b, ..=b, a.., (Excluded(a), ..), ..) and every i64 / u64 value, the
// bounds stored by `range()` contain v exactly when the declared range does (and, for an open side, when the previous bounds do).
// Loop-free over full-domain symbolic inputs: complete.
fn any_bound<T: kani::Arbitrary>() -> std::ops::Bound<T> {
    let k: u8 = kani::any();
    let v: T = kani::any();
    match k % 3 { 0 => std::ops::Bound::Included(v), 1 => std::ops::Bound::Excluded(v), _ => std::ops::Bound::Unbounded }
}
macro_rules! range_narrows {
    ($name:ident, $name2:ident, $parser:ident, $t:ty) => {
        #[kani::proof]
        #[kani::stub(alloc::fmt::format, stub_format)]
        pub(super) fn $name() {
            use std::ops::RangeBounds;
            let r: (std::ops::Bound<$t>, std::ops::Bound<$t>) = (any_bound(), any_bound());
            let p: $parser<$t> = $parser::new().range(r);
            let v: $t = kani::any();
            assert!(p.bounds.contains(&v) == r.contains(&v));
            kani::cover!(matches!(r.1, std::ops::Bound::Excluded(e) if e == v));
            kani::cover!(matches!(r.0, std::ops::Bound::Excluded(e) if e == v));
            kani::cover!(p.bounds.contains(&v));
        }
        // narrowing twice: inside both
        #[kani::proof]
        #[kani::stub(alloc::fmt::format, stub_format)]
        pub(super) fn $name2() {
            use std::ops::RangeBounds;
            let lo: $t = kani::any();
            let hi: $t = kani::any();
            kani::assume(lo <= hi);
            let r: (std::ops::Bound<$t>, std::ops::Bound<$t>) = (any_bound(), any_bound());
            // the documented requirement of `range` (its debug assertions): the new range lies inside the old one
            match r.0 { std::ops::Bound::Included(i) => kani::assume(lo <= i && i <= hi), std::ops::Bound::Excluded(i) => kani::assume(i < <$t>::MAX && lo <= i + 1 && i + 1 <= hi), _ => {} }
            match r.1 { std::ops::Bound::Included(i) => kani::assume(lo <= i && i <= hi), std::ops::Bound::Excluded(i) => kani::assume(i > <$t>::MIN && lo <= i - 1 && i - 1 <= hi), _ => {} }
            let p: $parser<$t> = $parser::new().range(lo..=hi).range(r);
            let v: $t = kani::any();
            assert!(p.bounds.contains(&v) == (lo <= v && v <= hi && r.contains(&v)));
            kani::cover!(p.bounds.contains(&v));
            kani::cover!(matches!(r.1, std::ops::Bound::Unbounded) && v == hi);
        }
    };
}
range_narrows!(range_narrows_i64, range_narrows_twice_i64, RangedI64ValueParser, i64);
range_narrows!(range_narrows_u64, range_narrows_twice_u64, RangedU64ValueParser, u64);

// ---------- C04-bool ----------
fn is_lit(b: &[u8], s: &str) -> bool {
    let t = s.as_bytes();
    if b.len() != t.len() { return false; }
    let mut i = 0;
    while i < b.len() { if b[i] != t[i] { return false; } i += 1; }
    true
}
fn is_lit_nocase(b: &[u8], s: &str) -> bool {
    let t = s.as_bytes();
    if b.len() != t.len() { return false; }
    let mut i = 0;
    while i < b.len() { let c = if b[i] >= b'A' && b[i] <= b'Z' { b[i] + 32 } else { b[i] }; if c != t[i] { return false; } i += 1; }
    true
}

/// BoolValueParser: accepts precisely "true" and "false" (documented literals), all byte strings <= 5
#[kani::proof]
#[kani::unwind(7)]
#[kani::stub(crate::output::Usage::create_usage_with_title, stub_usage)]
#[kani::stub(alloc::fmt::format, stub_format)]
#[kani::stub(crate::error::Error::with_cmd, stub_with_cmd)]
#[kani::stub(std::ffi::OsStr::to_string_lossy, stub_lossy)]
pub(super) fn bool_language_5() {
    let cmd = crate::Command::new("x");
    let buf: [u8; 5] = kani::any();
    let len: usize = kani::any();
    kani::assume(len <= 5);
    let b = &buf[..len];
    let r = TypedValueParser::parse_ref(&BoolValueParser::new(), &cmd, None, os(b));
    match r {
        Ok(v) => { assert!(if v { is_lit(b, "true") } else { is_lit(b, "false") }); kani::cover!(v); kani::cover!(!v); }
        Err(e) => { assert!(!is_lit(b, "true") && !is_lit(b, "false")); assert!(e.kind() == crate::error::ErrorKind::InvalidValue); std::mem::forget(e); }
    }
    std::mem::forget(cmd);
}

/// str_to_bool (BoolishValueParser / FalseyValueParser): documented literal tables, case-insensitively
fn boolish<const N: usize>() {
    let buf: [u8; N] = kani::any();
    let len: usize = kani::any();
    kani::assume(len <= N);
    let mut i = 0;
    while i < N { kani::assume(buf[i] < 128); i += 1; }
    let b = &buf[..len];
    let s = std::str::from_utf8(b).unwrap();
    let t = is_lit_nocase(b, "y") || is_lit_nocase(b, "yes") || is_lit_nocase(b, "t") || is_lit_nocase(b, "true") || is_lit_nocase(b, "on") || is_lit_nocase(b, "1");
    let f = is_lit_nocase(b, "n") || is_lit_nocase(b, "no") || is_lit_nocase(b, "f") || is_lit_nocase(b, "false") || is_lit_nocase(b, "off") || is_lit_nocase(b, "0");
    let got = crate::util::str_to_bool(s);
    assert!(got == if t { Some(true) } else if f { Some(false) } else { None });
    kani::cover!(t && len == if N < 3 { N } else { 3 });
    kani::cover!(f && len == if N < 3 { N } else { 3 });
    kani::cover!(!t && !f && len == N);
}

#[kani::proof]
#[kani::unwind(7)]
pub(super) fn boolish_language_2() { boolish::<2>(); }

#[kani::proof]
#[kani::unwind(8)]
pub(super) fn boolish_language_3() { boolish::<3>(); }

#[kani::proof]
#[kani::unwind(10)]
pub(super) fn boolish_language_5() { boolish::<5>(); }
