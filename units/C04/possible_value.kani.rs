use super::*;

// C04-pv: "possible-value parsers accept precisely the declared names and aliases (case-insensitively
// only when asked)".  One possible value with name NAME and aliases A1, A2 (fixed, chosen to differ in
// case-folding behaviour); the candidate is every ASCII string up to N bytes.
fn eq_nocase(a: &[u8], b: &[u8]) -> bool {
    if a.len() != b.len() { return false; }
    let mut i = 0;
    while i < a.len() {
        let x = if a[i] >= b'A' && a[i] <= b'Z' { a[i] + 32 } else { a[i] };
        let y = if b[i] >= b'A' && b[i] <= b'Z' { b[i] + 32 } else { b[i] };
        if x != y { return false; }
        i += 1;
    }
    true
}
fn eq_exact(a: &[u8], b: &[u8]) -> bool {
    if a.len() != b.len() { return false; }
    let mut i = 0;
    while i < a.len() { if a[i] != b[i] { return false; } i += 1; }
    true
}

fn matches_model<const N: usize>() {
    let pv = PossibleValue::new("ab").alias("Q").alias("xy");
    let buf: [u8; N] = kani::any();
    let len: usize = kani::any();
    kani::assume(len <= N);
    let mut i = 0;
    while i < N { kani::assume(buf[i] < 128); i += 1; }
    let b = &buf[..len];
    let s = std::str::from_utf8(b).unwrap();
    let ic: bool = kani::any();
    let want = if ic {
        eq_nocase(b, b"ab") || eq_nocase(b, b"Q") || eq_nocase(b, b"xy")
    } else {
        eq_exact(b, b"ab") || eq_exact(b, b"Q") || eq_exact(b, b"xy")
    };
    assert!(pv.matches(s, ic) == want);
    kani::cover!(ic && want && len == 2 && buf[0] == b'X');     // alias in another case
    kani::cover!(!ic && !want && len == 1 && buf[0] == b'q');   // case matters when not asked
    kani::cover!(ic && want && len == 1);
    std::mem::forget(pv);
}

#[kani::proof]
#[kani::unwind(5)]
pub(super) fn possible_value_matches_2() { matches_model::<2>(); }

#[kani::proof]
#[kani::unwind(6)]
pub(super) fn possible_value_matches_3() { matches_model::<3>(); }
