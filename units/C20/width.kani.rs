use super::*;

// C20-dw (default features: every char has width 1): sum of widths outside ESC ... m; escape sequences
// count as zero width.
fn display_width_model<const N: usize>() {
    let buf: [u8; N] = kani::any();
    let len: usize = kani::any();
    kani::assume(len <= N);
    let mut i = 0;
    while i < N { kani::assume(buf[i] < 128); i += 1; }
    let s = std::str::from_utf8(&buf[..len]).unwrap();
    let mut w = 0usize; let mut ctl = false; let mut j = 0;
    while j < len {
        let c = buf[j];
        let is_ctl = c < 32 || c == 127;
        if is_ctl { ctl = true; }
        else if ctl && c == b'm' { ctl = false; j += 1; continue; }
        if !ctl { w += 1; }
        j += 1;
    }
    assert!(display_width(s) == w);
    kani::cover!(len == N && w == 0);
    kani::cover!(len == N && w == N);
    kani::cover!(len == N && w == 1 && buf[0] == 27);
}

#[kani::proof]
#[kani::unwind(6)]
pub(super) fn display_width_model_4() { display_width_model::<4>(); }

#[kani::proof]
#[kani::unwind(8)]
pub(super) fn display_width_model_6() { display_width_model::<6>(); }
