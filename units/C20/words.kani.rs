use super::*;

// C20-words: the words partition the line (concatenation == line, nothing dropped or duplicated);
// every word is non-spaces followed by spaces, none empty.
fn words_partition_line<const N: usize>() {
    let sel: [u8; N] = kani::any();
    let len: usize = kani::any();
    kani::assume(len <= N);
    let mut buf = [b'a'; N];
    let mut i = 0;
    while i < N { kani::assume(sel[i] < 4); buf[i] = match sel[i] { 0 => b' ', 1 => b'a', 2 => b'\n', _ => b'-' }; i += 1; }
    let line = std::str::from_utf8(&buf[..len]).unwrap();
    let mut it = find_words_ascii_space(line);
    let mut pos = 0usize;
    let mut words = 0usize;
    let mut n = 0;
    while n < N + 1 {
        match it.next() {
            Some(w) => {
                let wb = w.as_bytes();
                assert!(wb.len() > 0);
                let mut t = 0; let mut in_space = false;
                while t < wb.len() {
                    assert!(wb[t] == buf[pos + t]);
                    if wb[t] == b' ' { in_space = true; } else { assert!(!in_space); }
                    t += 1;
                }
                pos += wb.len();
                words += 1;
            }
            None => { break; }
        }
        n += 1;
    }
    assert!(pos == len);
    assert!(it.next().is_none());
    kani::cover!(words == 2);
    kani::cover!(len == N && words == 1);
}

#[kani::proof]
#[kani::unwind(6)]
pub(super) fn words_partition_line_3() { words_partition_line::<3>(); }

#[kani::proof]
#[kani::unwind(8)]
pub(super) fn words_partition_line_5() { words_partition_line::<5>(); }
