use super::*;

// exhaustive `match` without wildcard on purpose: a new ErrorKind variant makes this harness stop
// compiling (unit undecided) instead of silently passing.
fn any_kind() -> (ErrorKind, bool) {
    let k: u8 = kani::any();
    kani::assume(k < 17);
    let kind = match k {
        0 => ErrorKind::InvalidValue, 1 => ErrorKind::UnknownArgument, 2 => ErrorKind::InvalidSubcommand,
        3 => ErrorKind::NoEquals, 4 => ErrorKind::ValueValidation, 5 => ErrorKind::TooManyValues,
        6 => ErrorKind::TooFewValues, 7 => ErrorKind::WrongNumberOfValues, 8 => ErrorKind::ArgumentConflict,
        9 => ErrorKind::MissingRequiredArgument, 10 => ErrorKind::MissingSubcommand, 11 => ErrorKind::InvalidUtf8,
        12 => ErrorKind::DisplayHelp, 13 => ErrorKind::DisplayHelpOnMissingArgumentOrSubcommand,
        14 => ErrorKind::DisplayVersion, 15 => ErrorKind::Io, _ => ErrorKind::Format,
    };
    // from the property statement: "Help and version requests are the only outcomes that use standard output and exit code 0"
    let help_or_version = match kind {
        ErrorKind::DisplayHelp | ErrorKind::DisplayVersion => true,
        ErrorKind::InvalidValue | ErrorKind::UnknownArgument | ErrorKind::InvalidSubcommand | ErrorKind::NoEquals
        | ErrorKind::ValueValidation | ErrorKind::TooManyValues | ErrorKind::TooFewValues | ErrorKind::WrongNumberOfValues
        | ErrorKind::ArgumentConflict | ErrorKind::MissingRequiredArgument | ErrorKind::MissingSubcommand
        | ErrorKind::InvalidUtf8 | ErrorKind::DisplayHelpOnMissingArgumentOrSubcommand | ErrorKind::Io | ErrorKind::Format => false,
    };
    (kind, help_or_version)
}

#[kani::proof]
#[kani::unwind(2)]
pub(super) fn exit_contract_all_kinds() {
    let (kind, hv) = any_kind();
    let e: Error = Error::new(kind);
    assert!(e.kind() == kind);
    assert!(e.use_stderr() == !hv);
    assert!((e.stream() == Stream::Stdout) == hv);
    assert!(e.exit_code() == if hv { 0 } else { 2 });
    kani::cover!(hv);
    kani::cover!(!hv);
    kani::cover!(kind == ErrorKind::DisplayHelpOnMissingArgumentOrSubcommand);
    std::mem::forget(e);
}
