use super::*;
use crate::builder::ArgAction as A;

// Error rendering is stubbed: this unit is about WHICH rule rejects a value count, not about the message.
fn stub_usage<'cmd>(_u: &crate::output::Usage<'cmd>, _used: &[Id]) -> Option<crate::builder::StyledStr> where 'cmd: 'cmd { None }
fn stub_format(_a: std::fmt::Arguments<'_>) -> String { String::new() }
fn stub_with_cmd<F: crate::error::ErrorFormatter>(e: crate::error::Error<F>, _cmd: &Command) -> crate::error::Error<F> { e }
fn stub_lossy(_s: &std::ffi::OsStr) -> std::borrow::Cow<'_, str> { std::borrow::Cow::Borrowed("") }
fn stub_pvs(_a: &Arg) -> Vec<crate::builder::PossibleValue> { Vec::new() }
fn stub_arg_fmt(_a: &Arg, _f: &mut std::fmt::Formatter<'_>) -> std::fmt::Result { Ok(()) }

fn numargs<const NMAX: usize>() {
    let lo: usize = kani::any();
    let hi: usize = kani::any();
    kani::assume(lo <= hi);
    let n: usize = kani::any();
    kani::assume(n <= NMAX);
    let mut a = Arg::new("o").long("o").action(A::Append).num_args(lo..=hi);
    a._build();
    let mut cmd = Command::new("p").arg(a);
    let parser = Parser::new(&mut cmd);
    let arg = parser.cmd.find(&Id::from_static_ref("o")).unwrap();
    let mut vals: Vec<OsString> = Vec::new();
    let mut i = 0;
    while i < n { vals.push(OsString::from("v")); i += 1; }
    let r = parser.verify_num_args(arg, &vals);
    match r {
        // "inputs that break no rule are not rejected" / "a value count outside the declared range" is
        Ok(()) => { assert!(lo <= n && n <= hi); kani::cover!(n == NMAX); }
        Err(e) => {
            use crate::error::ErrorKind as K;
            assert!(!(lo <= n && n <= hi));
            let k = e.kind();
            if n == 0 && lo > 0 { assert!(k == K::InvalidValue); kani::cover!(true); }
            else if lo == hi { assert!(n != lo && k == K::WrongNumberOfValues); kani::cover!(true); }
            else if n < lo { assert!(k == K::TooFewValues); kani::cover!(true); }
            else { assert!(n > hi && k == K::TooManyValues); kani::cover!(true); }
            std::mem::forget(e);
        }
    }
    std::mem::forget(vals);
    std::mem::forget(parser);
}

#[kani::proof]
#[kani::unwind(4)]
#[kani::stub(crate::output::Usage::create_usage_with_title, stub_usage)]
#[kani::stub(alloc::fmt::format, stub_format)]
#[kani::stub(crate::error::Error::with_cmd, stub_with_cmd)]
#[kani::stub(std::ffi::OsStr::to_string_lossy, stub_lossy)]
#[kani::stub(crate::parser::validator::get_possible_values_cli, stub_pvs)]
#[kani::stub(<Arg as std::fmt::Display>::fmt, stub_arg_fmt)]
pub(super) fn verify_num_args_2() { numargs::<2>(); }

#[kani::proof]
#[kani::unwind(5)]
#[kani::stub(crate::output::Usage::create_usage_with_title, stub_usage)]
#[kani::stub(alloc::fmt::format, stub_format)]
#[kani::stub(crate::error::Error::with_cmd, stub_with_cmd)]
#[kani::stub(std::ffi::OsStr::to_string_lossy, stub_lossy)]
#[kani::stub(crate::parser::validator::get_possible_values_cli, stub_pvs)]
#[kani::stub(<Arg as std::fmt::Display>::fmt, stub_arg_fmt)]
pub(super) fn verify_num_args_3() { numargs::<3>(); }
