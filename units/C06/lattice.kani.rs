use super::*;

fn any_source() -> ValueSource {
    let k: u8 = kani::any();
    kani::assume(k < 3);
    match k { 0 => ValueSource::DefaultValue, 1 => ValueSource::EnvVariable, _ => ValueSource::CommandLine }
}
// precedence taken from the property statement: command line beats environment beats default
fn rank(s: ValueSource) -> u8 { match s { ValueSource::DefaultValue => 0, ValueSource::EnvVariable => 1, ValueSource::CommandLine => 2 } }

/// derived Ord of ValueSource: Default < Env < CommandLine (re-ordering the enum fails here)
#[kani::proof]
pub(super) fn source_order_is_precedence() {
    let a = any_source();
    let b = any_source();
    assert!((a < b) == (rank(a) < rank(b)));
    assert!((a == b) == (rank(a) == rank(b)));
    assert!(a.max(b) == if rank(a) >= rank(b) { a } else { b });
    // "values that came from defaults never trigger conflicts, requirements or 'arguments present' logic"
    assert!(a.is_explicit() == (rank(a) != 0));
    kani::cover!(a == ValueSource::CommandLine && b == ValueSource::EnvVariable);
}

/// MatchedArg::set_source keeps the strongest origin ever recorded; check_explicit(IsPresent) is
/// true exactly when that origin is not a default.
#[kani::proof]
#[kani::unwind(2)]
pub(super) fn set_source_is_max() {
    let mut m = MatchedArg::new_group();
    assert!(m.source().is_none());
    let has: bool = kani::any();
    let a = any_source();
    if has { m.set_source(a); assert!(m.source() == Some(a)); }
    let b = any_source();
    m.set_source(b);
    let got = m.source().unwrap();
    let want = if has && rank(a) > rank(b) { a } else { b };
    assert!(got == want);
    assert!(m.check_explicit(&ArgPredicate::IsPresent) == (rank(got) != 0));
    kani::cover!(has && rank(a) > rank(b));
    kani::cover!(has && rank(a) < rank(b));
    kani::cover!(!has);
    std::mem::forget(m);
}

/// an argument with no recorded source (never the case after start_custom_arg) counts as present
#[kani::proof]
#[kani::unwind(2)]
pub(super) fn explicit_without_source() {
    let m = MatchedArg::new_group();
    assert!(m.check_explicit(&ArgPredicate::IsPresent));
    std::mem::forget(m);
}

/// C03 "required-if / requires-if rules": `check_explicit(Equals(v))` is true exactly when the argument was
/// given explicitly and ANY of its values, in any occurrence, equals v (two occurrences, symbolic values).
#[kani::proof]
#[kani::unwind(6)]
pub(super) fn check_explicit_equals_any_occurrence() {
    use std::os::unix::ffi::OsStrExt as _;
    let src = any_source();
    let t1: u8 = kani::any();
    let t2: u8 = kani::any();
    kani::assume((t1 == b'x' || t1 == b'y') && (t2 == b'x' || t2 == b'y'));
    // built field by field (this module is a child of matched_arg): check_explicit reads only `source`,
    // `raw_vals` and `ignore_case`; the typed values (`Arc<dyn Any>`, which exhaust CBMC's memory here) are
    // left empty
    let m = MatchedArg {
        source: Some(src),
        indices: Vec::new(),
        type_id: None,
        vals: Vec::new(),
        raw_vals: vec![vec![OsString::from(OsStr::from_bytes(&[t1]))], vec![OsString::from(OsStr::from_bytes(&[t2]))]],
        ignore_case: false,
    };
    let pred = ArgPredicate::Equals(crate::builder::OsStr::from("x"));
    let want = rank(src) != 0 && (t1 == b'x' || t2 == b'x');
    assert!(m.check_explicit(&pred) == want);
    kani::cover!(rank(src) != 0 && t1 == b'x' && t2 == b'y');
    kani::cover!(rank(src) == 0 && t1 == b'x');
    std::mem::forget(pred);
    std::mem::forget(m);
}
