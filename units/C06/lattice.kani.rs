use super::*;

fn any_source() -> ValueSource {
    let k: u8 = kani::any();
    kani::assume(k < 3);
    match k { 0 => ValueSource::DefaultValue, 1 => ValueSource::EnvVariable, _ => ValueSource::CommandLine }
}
// precedence taken from the property statement: command line beats environment beats default
fn rank(s: ValueSource) -> u8 { match s { ValueSource::DefaultValue => 0, ValueSource::EnvVariable => 1, ValueSource::CommandLine => 2 } }

/// derived Ord of ValueSource: Default < Env < CommandLine (re-ordering the enum fails here)
#[kani::proof]
pub(super) fn source_order_is_precedence() {
    let a = any_source();
    let b = any_source();
    assert!((a < b) == (rank(a) < rank(b)));
    assert!((a == b) == (rank(a) == rank(b)));
    assert!(a.max(b) == if rank(a) >= rank(b) { a } else { b });
    // "values that came from defaults never trigger conflicts, requirements or 'arguments present' logic"
    assert!(a.is_explicit() == (rank(a) != 0));
    kani::cover!(a == ValueSource::CommandLine && b == ValueSource::EnvVariable);
}

/// MatchedArg::set_source keeps the strongest origin ever recorded; check_explicit(IsPresent) is
/// true exactly when that origin is not a default.
#[kani::proof]
#[kani::unwind(2)]
pub(super) fn set_source_is_max() {
    let mut m = MatchedArg::new_group();
    assert!(m.source().is_none());
    let has: bool = kani::any();
    let a = any_source();
    if has { m.set_source(a); assert!(m.source() == Some(a)); }
    let b = any_source();
    m.set_source(b);
    let got = m.source().unwrap();
    let want = if has && rank(a) > rank(b) { a } else { b };
    assert!(got == want);
    assert!(m.check_explicit(&ArgPredicate::IsPresent) == (rank(got) != 0));
    kani::cover!(has && rank(a) > rank(b));
    kani::cover!(has && rank(a) < rank(b));
    kani::cover!(!has);
    std::mem::forget(m);
}

/// an argument with no recorded source (never the case after start_custom_arg) counts as present
#[kani::proof]
#[kani::unwind(2)]
pub(super) fn explicit_without_source() {
    let m = MatchedArg::new_group();
    assert!(m.check_explicit(&ArgPredicate::IsPresent));
    std::mem::forget(m);
}
