use super::*;
use std::os::unix::ffi::OsStrExt as _;

// Model from the property statement: "an index into a growable list", index in 0..=len.
// Abstraction: model index = min(real cursor, len).  Items carry distinct constant tags
// (the operations are parametric in the items), item i of the initial list = TAGS[i].
const TAGS: [u8; 3] = [b'a', b'b', b'c'];
const NEW: u8 = b'z';

fn clamp_i128(x: i128, lo: i128, hi: i128) -> i128 { if x < lo { lo } else if x > hi { hi } else { x } }

fn same(os: &OsStr, tag: u8) -> bool {
    let b = os.as_bytes();
    b.len() == 1 && b[0] == tag
}

fn build(n: usize) -> RawArgs {
    let items: Vec<OsString> = match n {
        0 => vec![],
        1 => vec![OsString::from("a")],
        2 => vec![OsString::from("a"), OsString::from("b")],
        _ => vec![OsString::from("a"), OsString::from("b"), OsString::from("c")],
    };
    RawArgs { items }
}

/// F3 shape: after any number (<= len+2) of `next_os` calls, `remaining`, `peek`, `is_end`
/// stay in bounds and `remaining` yields exactly items[min(c,len)..].
#[kani::proof]
#[kani::unwind(6)]
pub(super) fn rest_in_bounds() {
    let n: usize = kani::any();
    kani::assume(n <= 2);
    let raw = build(n);
    let mut c = raw.cursor();
    let steps: usize = kani::any();
    kani::assume(steps <= n + 2);
    let mut j = 0;
    while j < steps { let _ = raw.next_os(&mut c); j += 1; }
    kani::cover!(steps == n + 2);
    kani::cover!(steps == 0 && n == 2);
    assert!(raw.is_end(&c) == (steps >= n));
    assert!(raw.peek_os(&c).is_some() == (steps < n));
    let mut cnt = 0usize;
    let start = if steps < n { steps } else { n };
    for s in raw.remaining(&mut c) {
        assert!(same(s, TAGS[start + cnt]));
        cnt += 1;
    }
    assert!(cnt == n - start);
    assert!(raw.is_end(&c));
    kani::cover!(cnt == 2);
    std::mem::forget(raw);
}

/// `insert` hands Vec::splice an in-bounds empty range for every cursor value `next_os` can produce
/// (the list is unchanged when nothing is inserted).
#[kani::proof]
#[kani::unwind(5)]
pub(super) fn insert_at_cursor() {
    let n: usize = kani::any();
    kani::assume(n <= 1);
    let mut raw = build(n);
    let mut c = raw.cursor();
    let steps: usize = kani::any();
    kani::assume(steps <= n + 1);
    let mut j = 0;
    while j < steps { let _ = raw.next_os(&mut c); j += 1; }
    kani::cover!(steps == n + 1);
    kani::cover!(steps == 0 && n == 1);
    raw.insert(&c, None::<OsString>);
    assert!(raw.items.len() == n);
    std::mem::forget(raw);
}

/// Lock-step with the index model over every sequence of OPS symbolic operations (no insert).
fn history<const OPS: usize>(nmax: usize) {
    let n: usize = kani::any();
    kani::assume(n <= nmax);
    let raw = build(n);
    let mut c = raw.cursor();
    let mut idx: usize = 0;
    let mut k = 0;
    while k < OPS {
        let op: u8 = kani::any();
        kani::assume(op < 7);
        match op {
            0 => {
                let got = raw.next_os(&mut c);
                if idx < n { assert!(got.is_some() && same(got.unwrap(), TAGS[idx])); idx += 1; }
                else { assert!(got.is_none()); }
            }
            1 => {
                let got = raw.peek_os(&c);
                if idx < n { assert!(got.is_some() && same(got.unwrap(), TAGS[idx])); }
                else { assert!(got.is_none()); }
            }
            2 => { assert!(raw.is_end(&c) == (idx >= n)); }
            3 => {
                let mut cnt = 0usize;
                for s in raw.remaining(&mut c) { assert!(same(s, TAGS[idx + cnt])); cnt += 1; }
                assert!(cnt == n - idx);
                idx = n;
            }
            4 => {
                let p: u64 = kani::any();
                raw.seek(&mut c, SeekFrom::Start(p));
                idx = clamp_i128(p as i128, 0, n as i128) as usize;
            }
            5 => {
                let p: i64 = kani::any();
                raw.seek(&mut c, SeekFrom::Current(p));
                idx = clamp_i128(idx as i128 + p as i128, 0, n as i128) as usize;
                kani::cover!(p < 0 && k > 1);
            }
            _ => {
                let p: i64 = kani::any();
                raw.seek(&mut c, SeekFrom::End(p));
                idx = clamp_i128(n as i128 + p as i128, 0, n as i128) as usize;
            }
        }
        assert!(raw.is_end(&c) == (idx >= n));
        k += 1;
    }
    kani::cover!(idx == nmax);
    std::mem::forget(raw);
}

#[kani::proof]
#[kani::unwind(5)]
pub(super) fn cursor_history_3() { history::<3>(2); }

#[kani::proof]
#[kani::unwind(6)]
pub(super) fn cursor_history_5() { history::<5>(3); }
