use super::*;
use std::os::unix::ffi::OsStrExt as _;

// Model from the property statement: "an index into a growable list", index in 0..=len.
// Abstraction: model index = min(real cursor, len).
const CAP: usize = 6;

struct Model { tags: [u8; CAP], len: usize, idx: usize }

fn clamp_i128(x: i128, lo: i128, hi: i128) -> i128 { if x < lo { lo } else if x > hi { hi } else { x } }

fn same(os: &OsStr, tag: u8) -> bool {
    let b = os.as_bytes();
    b.len() == 1 && b[0] == tag
}

fn build(n: usize, tags: &[u8; CAP]) -> RawArgs {
    let mut items: Vec<OsString> = Vec::new();
    let mut i = 0;
    while i < n { items.push(OsString::from(OsStr::from_bytes(&tags[i..i + 1]))); i += 1; }
    RawArgs { items }
}

/// F3 shape: after any number (<= len+2) of `next_os` calls, `remaining`, `insert`, `peek`, `is_end`
/// stay in bounds and `remaining` yields exactly items[min(c,len)..].
#[kani::proof]
#[kani::unwind(6)]
pub(super) fn rest_in_bounds() {
    let n: usize = kani::any();
    kani::assume(n <= 2);
    let tags: [u8; CAP] = kani::any();
    let mut raw = build(n, &tags);
    let mut c = raw.cursor();
    let steps: usize = kani::any();
    kani::assume(steps <= n + 2);
    let mut j = 0;
    while j < steps { let _ = raw.next_os(&mut c); j += 1; }
    kani::cover!(steps == n + 2);
    kani::cover!(steps == 0 && n == 2);
    assert!(raw.is_end(&c) == (steps >= n));
    assert!(raw.peek_os(&c).is_some() == (steps < n));
    if kani::any() {
        let mut cnt = 0usize;
        let start = if steps < n { steps } else { n };
        for s in raw.remaining(&mut c) {
            assert!(same(s, tags[start + cnt]));
            cnt += 1;
        }
        assert!(cnt == n - start);
        assert!(raw.is_end(&c));
        kani::cover!(cnt == 2);
    } else {
        let t: u8 = kani::any();
        raw.insert(&c, [OsString::from(OsStr::from_bytes(&[t]))]);
        assert!(raw.items.len() == n + 1);
        // inserted before the next unread argument: it is what `next` returns now when the cursor was in range
        let at = if steps < n { steps } else { n };
        assert!(same(raw.items[at].as_os_str(), t));
        std::mem::forget(raw);
    }
}

/// Lock-step with the index model over every sequence of OPS symbolic operations.
fn history<const OPS: usize>(nmax: usize) {
    let n: usize = kani::any();
    kani::assume(n <= nmax);
    let tags: [u8; CAP] = kani::any();
    let mut raw = build(n, &tags);
    let mut c = raw.cursor();
    let mut m = Model { tags, len: n, idx: 0 };
    let mut k = 0;
    while k < OPS {
        let op: u8 = kani::any();
        kani::assume(op < 8);
        match op {
            0 => {
                let got = raw.next_os(&mut c);
                if m.idx < m.len { assert!(got.is_some() && same(got.unwrap(), m.tags[m.idx])); m.idx += 1; }
                else { assert!(got.is_none()); }
            }
            1 => {
                let got = raw.peek_os(&c);
                if m.idx < m.len { assert!(got.is_some() && same(got.unwrap(), m.tags[m.idx])); }
                else { assert!(got.is_none()); }
            }
            2 => { assert!(raw.is_end(&c) == (m.idx >= m.len)); }
            3 => {
                let mut cnt = 0usize;
                for s in raw.remaining(&mut c) { assert!(same(s, m.tags[m.idx + cnt])); cnt += 1; }
                assert!(cnt == m.len - m.idx);
                m.idx = m.len;
            }
            4 => {
                let p: u64 = kani::any();
                raw.seek(&mut c, SeekFrom::Start(p));
                m.idx = clamp_i128(p as i128, 0, m.len as i128) as usize;
            }
            5 => {
                let p: i64 = kani::any();
                raw.seek(&mut c, SeekFrom::Current(p));
                m.idx = clamp_i128(m.idx as i128 + p as i128, 0, m.len as i128) as usize;
                kani::cover!(p < 0 && k > 1);
            }
            6 => {
                let p: i64 = kani::any();
                raw.seek(&mut c, SeekFrom::End(p));
                m.idx = clamp_i128(m.len as i128 + p as i128, 0, m.len as i128) as usize;
            }
            _ => {
                if m.len < CAP {
                    let t: u8 = kani::any();
                    raw.insert(&c, [OsString::from(OsStr::from_bytes(&[t]))]);
                    let mut j = m.len;
                    while j > m.idx { m.tags[j] = m.tags[j - 1]; j -= 1; }
                    m.tags[m.idx] = t;
                    m.len += 1;
                    assert!(raw.items.len() == m.len);
                }
            }
        }
        // whole-view agreement after every operation
        assert!(raw.items.len() == m.len);
        assert!(raw.is_end(&c) == (m.idx >= m.len));
        k += 1;
    }
    kani::cover!(m.len == nmax + 1);
    std::mem::forget(raw);
}

#[kani::proof]
#[kani::unwind(7)]
pub(super) fn cursor_history_3() { history::<3>(1); }

#[kani::proof]
#[kani::unwind(8)]
pub(super) fn cursor_history_4() { history::<4>(2); }
