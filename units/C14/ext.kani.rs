use super::*;
use std::ffi::OsStr;
use std::os::unix::ffi::OsStrExt as _;

// naive byte-window model of "the same operation on the underlying bytes"
fn model_find(h: &[u8], n: &[u8]) -> Option<usize> {
    if n.len() > h.len() { return None; }
    let mut i = 0;
    while i + n.len() <= h.len() {
        let mut ok = true;
        let mut j = 0;
        while j < n.len() { if h[i + j] != n[j] { ok = false; } j += 1; }
        if ok { return Some(i); }
        i += 1;
    }
    None
}

fn eq(a: &[u8], b: &[u8]) -> bool {
    if a.len() != b.len() { return false; }
    let mut i = 0;
    while i < a.len() { if a[i] != b[i] { return false; } i += 1; }
    true
}

fn helpers<const H: usize, const NMAX: usize>() {
    let hb: [u8; H] = kani::any();
    let hl: usize = kani::any();
    kani::assume(hl <= H);
    let nb: [u8; NMAX] = kani::any();
    let nl: usize = kani::any();
    kani::assume(nl >= 1 && nl <= NMAX);
    let h = OsStr::from_bytes(&hb[..hl]);
    let n = match std::str::from_utf8(&nb[..nl]) { Ok(s) => s, Err(_) => return };
    kani::cover!(true);
    let want = model_find(&hb[..hl], &nb[..nl]);
    let got = crate::OsStrExt::find(h, n);
    assert!(got == want);
    assert!(crate::OsStrExt::contains(h, n) == want.is_some());
    assert!(crate::OsStrExt::starts_with(h, n) == (want == Some(0)));
    match crate::OsStrExt::strip_prefix(h, n) {
        None => assert!(want != Some(0)),
        Some(rest) => { assert!(want == Some(0)); assert!(eq(rest.as_bytes(), &hb[nl..hl])); }
    }
    match crate::OsStrExt::split_once(h, n) {
        None => assert!(want.is_none()),
        Some((a, b)) => {
            let i = want.unwrap();
            assert!(eq(a.as_bytes(), &hb[..i]));
            assert!(eq(b.as_bytes(), &hb[i + nl..hl]));
            kani::cover!(i > 0 && i + nl < hl);
        }
    }
    kani::cover!(want.is_none() && hl == H);
}

#[kani::proof]
#[kani::unwind(6)]
pub(super) fn osstr_helpers_3_2() { helpers::<3, 2>(); }

#[kani::proof]
#[kani::unwind(7)]
pub(super) fn osstr_helpers_4_2() { helpers::<4, 2>(); }

// split: pieces joined by the needle == haystack; leftmost, non-overlapping; ends after the last piece
fn split_model<const H: usize>() {
    let hb: [u8; H] = kani::any();
    let hl: usize = kani::any();
    kani::assume(hl <= H);
    let nb: u8 = kani::any();
    kani::assume(nb < 128);
    let nbuf = [nb];
    let n = std::str::from_utf8(&nbuf).unwrap();
    let h = OsStr::from_bytes(&hb[..hl]);
    let mut it = crate::OsStrExt::split(h, n);
    let mut pos = 0usize;       // read position in the haystack
    let mut pieces = 0usize;
    let mut k = 0;
    while k <= H {
        match it.next() {
            Some(p) => {
                let pb = p.as_bytes();
                // the piece is the text up to the next needle (leftmost) ...
                let mut t = 0;
                while t < pb.len() { assert!(hb[pos + t] == pb[t]); assert!(pb[t] != nb); t += 1; }
                pos += pb.len();
                pieces += 1;
                // ... followed by the needle or the end of the haystack
                if pos < hl { assert!(hb[pos] == nb); pos += 1; if pos == hl { /* trailing needle: one more empty piece follows */ } }
                else { assert!(pos == hl); }
            }
            None => break,
        }
        k += 1;
    }
    assert!(it.next().is_none());
    // number of pieces = number of needles + 1
    let mut cnt = 0usize;
    let mut i = 0;
    while i < hl { if hb[i] == nb { cnt += 1; } i += 1; }
    assert!(pieces == cnt + 1);
    kani::cover!(pieces == 3);
    kani::cover!(pieces == 1 && hl == H);
}

#[kani::proof]
#[kani::unwind(6)]
pub(super) fn osstr_split_3() { split_model::<3>(); }

#[kani::proof]
#[kani::unwind(7)]
pub(super) fn osstr_split_4() { split_model::<4>(); }
