use super::*;
use crate::builder::ArgAction as A;

fn stub_arg_fmt(_a: &Arg, _f: &mut std::fmt::Formatter<'_>) -> std::fmt::Result { Ok(()) }
fn stub_format(_a: std::fmt::Arguments<'_>) -> String { String::new() }

// Twin of the Verus unit C07-override on the compiled function (catches rewrites the Verus anchors lose):
// three flags a, b, c with a symbolic `overrides` relation, any subset already matched; starting an
// occurrence of `a` must leave exactly the keys k with  k not in a.overrides  and  a not in k.overrides.
#[kani::proof]
#[kani::unwind(6)]
#[kani::stub(<Arg as std::fmt::Display>::fmt, stub_arg_fmt)]
#[kani::stub(alloc::fmt::format, stub_format)]
pub(super) fn remove_overrides_3() {
    let names: [&'static str; 3] = ["a", "b", "c"];
    let shorts: [char; 3] = ['a', 'b', 'c'];
    let mut ov = [[false; 3]; 3];
    let mut cmd = Command::new("p");
    let mut i = 0;
    while i < 3 {
        let mut arg = Arg::new(names[i]).short(shorts[i]).action(A::SetTrue);
        let mut j = 0;
        while j < 3 {
            if i != j { ov[i][j] = kani::any(); if ov[i][j] { arg = arg.overrides_with(names[j]); } }
            j += 1;
        }
        arg._build();
        cmd = cmd.arg(arg);
        i += 1;
    }
    let mut matcher = ArgMatcher::new(&cmd);
    let mut present = [false; 3];
    let mut i = 0;
    while i < 3 {
        present[i] = kani::any();
        if present[i] { let _ = matcher.entry(Id::from_static_ref(names[i])).or_insert(crate::parser::MatchedArg::new_group()); }
        i += 1;
    }
    let parser = Parser::new(&mut cmd);
    let arg_a = parser.cmd.find(&Id::from_static_ref("a")).unwrap();
    parser.remove_overrides(arg_a, &mut matcher);
    let mut k = 0;
    while k < 3 {
        let survives = !ov[0][k] && !ov[k][0];
        assert!(matcher.contains(&Id::from_static_ref(names[k])) == (present[k] && survives));
        k += 1;
    }
    kani::cover!(present[1] && present[2] && ov[1][0] && ov[2][0]);
    kani::cover!(present[1] && ov[0][1] && !ov[1][0]);
    std::mem::forget(matcher);
    std::mem::forget(parser);
}
