use super::*;

// C18 "returns a candidate list ... without panicking": rsplit_delimiter splits the word under the cursor at
// the LAST value delimiter (any char, multi-byte included) on a character boundary:
// prefix ++ value == word, prefix ends with the delimiter, value holds no delimiter.
fn rsplit<const N: usize>() {
    let buf: [u8; N] = kani::any();
    let len: usize = kani::any();
    kani::assume(len <= N);
    let s = match std::str::from_utf8(&buf[..len]) { Ok(s) => s, Err(_) => return };
    let d: char = kani::any();
    let has: bool = kani::any();
    let r = rsplit_delimiter(Ok(s), if has { Some(d) } else { None });
    let mut dbuf = [0u8; 4];
    let db = d.encode_utf8(&mut dbuf).as_bytes();
    match r {
        None => {
            // no delimiter configured, or it does not occur in the word
            if has {
                let mut i = 0;
                while i + db.len() <= len {
                    let mut eq = true; let mut j = 0;
                    while j < db.len() { if buf[i + j] != db[j] { eq = false; } j += 1; }
                    assert!(!eq);
                    i += 1;
                }
            }
        }
        Some((prefix, value)) => {
            assert!(has);
            let p = prefix.unwrap().as_bytes();
            let v = match value { Ok(v) => v.as_bytes(), Err(_) => { assert!(false); return; } };
            assert!(p.len() + v.len() == len);
            let mut i = 0;
            while i < p.len() { assert!(p[i] == buf[i]); i += 1; }
            let mut j = 0;
            while j < v.len() { assert!(v[j] == buf[p.len() + j]); j += 1; }
            // prefix ends with the delimiter
            assert!(p.len() >= db.len());
            let mut t = 0;
            while t < db.len() { assert!(p[p.len() - db.len() + t] == db[t]); t += 1; }
            kani::cover!(db.len() == 2);
            kani::cover!(v.len() > 0 && p.len() > db.len());
        }
    }
    kani::cover!(has && r.is_none() && len == N);
}

#[kani::proof]
#[kani::unwind(6)]
pub(super) fn rsplit_delimiter_3() { rsplit::<3>(); }

#[kani::proof]
#[kani::unwind(7)]
pub(super) fn rsplit_delimiter_4() { rsplit::<4>(); }
