use super::*;

/// C18-pos: contract of `parse_positional` (attached to the real function by the driver):
///   requires  state is not Opt  (the `unreachable!` arm) and pos_index + 1 does not overflow
///   ensures   new index in {i, i+1}; new state in {ValueDone, Pos((i, n>=1))}; never Opt
/// proved here for a command without positionals (num_args defaults to 1) ...
#[kani::proof_for_contract(parse_positional)]
#[kani::unwind(4)]
pub(super) fn parse_positional_contract_no_positional() {
    let cmd = clap::Command::new("p");
    let pos_index: usize = kani::any();
    let is_escaped: bool = kani::any();
    let which: u8 = kani::any();
    let a: usize = kani::any();
    let b: usize = kani::any();
    let state = if which % 2 == 0 { ParseState::ValueDone } else { ParseState::Pos((a, b)) };
    let (ns, _ni) = parse_positional(&cmd, pos_index, is_escaped, state);
    kani::cover!(matches!(ns, ParseState::ValueDone));
    kani::cover!(matches!(ns, ParseState::Pos(_)));
    std::mem::forget(cmd);
}
