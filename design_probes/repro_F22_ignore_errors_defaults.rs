// Reproduction on the UNCHANGED code: under `ignore_errors(true)` an error raised after
// `Parser::parse` has returned (while resolving the last pending option, or while applying an
// env value) makes `get_matches_with` return before `add_env` / `add_defaults` ran, so the
// returned matches lack env values and defaults altogether.
use clap::parser::ValueSource;
use clap::{Arg, ArgAction, Command};

fn cmd() -> Command {
    Command::new("prog")
        .ignore_errors(true)
        .arg(
            Arg::new("count")
                .long("count")
                .action(ArgAction::Set)
                .value_parser(clap::value_parser!(u8)),
        )
        .arg(
            Arg::new("level")
                .long("level")
                .action(ArgAction::Set)
                .default_value("info"),
        )
        .arg(Arg::new("quiet").long("quiet").action(ArgAction::SetTrue))
}

fn show(tag: &str, m: &clap::ArgMatches) {
    println!(
        "{tag}: level={:?} source(level)={:?} quiet={:?} source(quiet)={:?}",
        m.get_one::<String>("level"),
        m.value_source("level"),
        m.get_one::<bool>("quiet"),
        m.value_source("quiet"),
    );
}

// Same invalid value, but the option is not the last thing on the command line: the pending
// value is resolved inside `Parser::parse`, the recovery closure runs, defaults are there.
#[test]
fn invalid_value_in_the_middle_keeps_defaults() {
    let m = cmd()
        .try_get_matches_from(["prog", "--count", "abc", "--bogus"])
        .unwrap();
    show("middle", &m);
    assert_eq!(m.value_source("level"), Some(ValueSource::DefaultValue));
    assert_eq!(m.get_one::<bool>("quiet"), Some(&false));
}

// The option with the invalid value is the last token: it is still pending when `parse` returns,
// `resolve_pending` fails outside the recovery closure, and no default is ever added.
#[test]
fn invalid_value_at_the_end_loses_defaults() {
    let m = cmd()
        .try_get_matches_from(["prog", "--count", "abc"])
        .unwrap();
    show("end", &m);
    assert_eq!(
        m.value_source("level"),
        Some(ValueSource::DefaultValue),
        "`level` has a default and was not given: it must be reported with its default"
    );
    assert_eq!(m.get_one::<bool>("quiet"), Some(&false));
}

// Same root cause through `add_env`: an env value that does not parse aborts the env phase and
// skips the default phase for every argument.
#[cfg(feature = "env")]
#[test]
fn invalid_env_value_loses_defaults() {
    std::env::set_var("SEED_PRE_COUNT", "abc");
    let m = Command::new("prog")
        .ignore_errors(true)
        .arg(
            Arg::new("count")
                .long("count")
                .action(ArgAction::Set)
                .env("SEED_PRE_COUNT")
                .value_parser(clap::value_parser!(u8)),
        )
        .arg(
            Arg::new("level")
                .long("level")
                .action(ArgAction::Set)
                .default_value("info"),
        )
        .arg(Arg::new("quiet").long("quiet").action(ArgAction::SetTrue))
        .try_get_matches_from(["prog"])
        .unwrap();
    show("env", &m);
    assert_eq!(m.value_source("level"), Some(ValueSource::DefaultValue));
    assert_eq!(m.get_one::<bool>("quiet"), Some(&false));
}
