use clap::builder::ArgPredicate;
use clap::parser::ValueSource;
use clap::{Arg, ArgAction, Command};

// `opt` gets a conditional default when `other` is present; `other` has a plain default
fn cmd(other_first: bool) -> Command {
    let other = Arg::new("other").long("other").action(ArgAction::Set).default_value("x");
    let opt = Arg::new("opt").long("opt").action(ArgAction::Set).default_value_if("other", ArgPredicate::IsPresent, Some("cond"));
    if other_first { Command::new("prog").arg(other).arg(opt) } else { Command::new("prog").arg(opt).arg(other) }
}
#[test]
fn control_explicit_other_triggers() {
    for first in [true, false] {
        let m = cmd(first).try_get_matches_from(["prog", "--other", "y"]).unwrap();
        assert_eq!(m.get_one::<String>("opt").map(|s| s.as_str()), Some("cond"));
        assert_eq!(m.value_source("opt"), Some(ValueSource::DefaultValue));
    }
}
#[test]
fn a_default_value_is_not_presence() {
    // `other` was not supplied: only its default is there, which must not count as "present" — in either declaration order
    for first in [true, false] {
        let m = cmd(first).try_get_matches_from(["prog"]).unwrap();
        assert_eq!(m.get_one::<String>("opt"), None, "declared other first: {first}");
    }
}
#[test]
fn a_flag_that_was_not_given_is_not_present() {
    let m = Command::new("prog")
        .arg(Arg::new("flag").long("flag").action(ArgAction::SetTrue))
        .arg(Arg::new("opt").long("opt").default_value_if("flag", ArgPredicate::IsPresent, Some("cond")))
        .try_get_matches_from(["prog"]).unwrap();
    assert_eq!(m.get_one::<String>("opt"), None);
}
