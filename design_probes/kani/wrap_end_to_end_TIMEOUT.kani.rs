use super::*;

// C20-wrapfn: the composition split_inclusive -> find_words -> LineWrapper::wrap -> join on the real
// `textwrap::wrap`: every non-space character survives in order (original line breaks included), and every
// produced line fits the width unless it holds a single word.
fn wrap_end_to_end<const N: usize>(wmax: usize) {
    let sel: [u8; N] = kani::any();
    let len: usize = kani::any();
    kani::assume(len <= N);
    let mut buf = [b'a'; N];
    let mut i = 0;
    while i < N { kani::assume(sel[i] < 3); buf[i] = match sel[i] { 0 => b' ', 1 => b'a', _ => b'\n' }; i += 1; }
    let content = std::str::from_utf8(&buf[..len]).unwrap();
    let width: usize = kani::any();
    kani::assume(width >= 1 && width <= wmax);
    let out = wrap(content, width);
    let ob = out.as_bytes();
    // (1) content: dropping spaces and INSERTED breaks gives the original non-space characters; every
    //     original character that is not a space appears in order
    let mut oi = 0usize;
    let mut ii = 0usize;
    while ii < len {
        if buf[ii] == b' ' { ii += 1; continue; }
        // skip output spaces and inserted newlines until the next original non-space character
        while oi < ob.len() && (ob[oi] == b' ' || (ob[oi] == b'\n' && buf[ii] != b'\n')) { oi += 1; }
        assert!(oi < ob.len() && ob[oi] == buf[ii]);
        oi += 1; ii += 1;
    }
    while oi < ob.len() { assert!(ob[oi] == b' ' || ob[oi] == b'\n'); oi += 1; }
    // (2) width: each output line is at most `width` wide unless it holds a single word
    let mut k = 0usize; let mut linew = 0usize; let mut words = 0usize; let mut inword = false; let mut trimmed = 0usize;
    while k <= ob.len() {
        if k == ob.len() || ob[k] == b'\n' {
            assert!(trimmed <= width || words <= 1);
            linew = 0; words = 0; inword = false; trimmed = 0;
        } else {
            linew += 1;
            if ob[k] != b' ' { if !inword { words += 1; inword = true; } trimmed = linew; } else { inword = false; }
        }
        k += 1;
    }
    kani::cover!(len == N && ob.len() > len);
    std::mem::forget(out);
}

#[kani::proof]
#[kani::unwind(10)]
pub(super) fn wrap_end_to_end_3() { wrap_end_to_end::<3>(2); }
