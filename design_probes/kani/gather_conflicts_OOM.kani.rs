use super::*;

// C03-gather: "conflict gathering over explicitly-present ids, both directions": N explicitly present ids
// with a symbolic declared-conflict relation; gather_conflicts(t) reports exactly the OTHER present ids
// that conflict with t in either direction (either side may declare it), and never t itself.
// (Vec lengths are kept concrete — an undeclared conflict slot holds the unrelated id "z" — because
// symbolic-length Vec growth exhausts CBMC's memory.)
fn gather<const N: usize>() {
    let names: [&'static str; 3] = ["a", "b", "c"];
    let cmd = Command::new("p");
    let mut rel = [[false; N]; N];
    let mut potential: FlatMap<Id, Vec<Id>> = FlatMap::new();
    let mut i = 0;
    while i < N {
        let mut conf: Vec<Id> = Vec::with_capacity(N);
        let mut j = 0;
        while j < N {
            rel[i][j] = kani::any();
            conf.push(Id::from_static_ref(if rel[i][j] { names[j] } else { "z" }));
            j += 1;
        }
        // distinct keys by construction: the unchecked insertion path Conflicts::with_args itself uses
        potential.extend_unchecked(Some((Id::from_static_ref(names[i]), conf)));
        i += 1;
    }
    let c = Conflicts { potential };
    let t: usize = kani::any();
    kani::assume(t < N);
    let got = c.gather_conflicts(&cmd, &Id::from_static_ref(names[t]));
    let mut o = 0;
    while o < N {
        let want = o != t && (rel[t][o] || rel[o][t]);
        let has = got.contains(&Id::from_static_ref(names[o]));
        assert!(has == want);
        o += 1;
    }
    assert!(!got.contains(&Id::from_static_ref("z")));
    kani::cover!(got.len() >= 1);
    kani::cover!(got.is_empty());
    std::mem::forget(got);
    std::mem::forget(c);
    std::mem::forget(cmd);
}

#[kani::proof]
#[kani::unwind(5)]
pub(super) fn gather_conflicts_2() { gather::<2>(); }

#[kani::proof]
#[kani::unwind(6)]
pub(super) fn gather_conflicts_3() { gather::<3>(); }
