use crate::builder::*;
use crate::*;

fn oracle(b: &[u8]) -> Option<i64> {
    if b.is_empty() { return None; }
    let (neg, digs) = match b[0] { b'-' => (true, &b[1..]), b'+' => (false, &b[1..]), _ => (false, b) };
    if digs.is_empty() { return None; }
    let mut v: i64 = 0;
    let mut i = 0;
    while i < digs.len() {
        let d = digs[i];
        if d < b'0' || d > b'9' { return None; }
        v = v * 10 + (d - b'0') as i64;
        i += 1;
    }
    Some(if neg { -v } else { v })
}

fn stub_usage<'cmd>(_u: &crate::output::Usage<'cmd>, _used: &[crate::util::Id]) -> Option<StyledStr> where 'cmd: 'cmd { None }
fn stub_format(_a: std::fmt::Arguments<'_>) -> String { String::new() }
fn stub_with_cmd<F: crate::error::ErrorFormatter>(e: crate::error::Error<F>, _cmd: &Command) -> crate::error::Error<F> { e }
fn stub_lossy(_s: &std::ffi::OsStr) -> std::borrow::Cow<'_, str> { std::borrow::Cow::Borrowed("") }

#[kani::proof]
#[kani::unwind(6)]
#[kani::stub(crate::output::Usage::create_usage_with_title, stub_usage)]
#[kani::stub(alloc::fmt::format, stub_format)]
#[kani::stub(crate::error::Error::with_cmd, stub_with_cmd)]
#[kani::stub(std::ffi::OsStr::to_string_lossy, stub_lossy)]
fn ranged_u8_language() {
    let cmd = Command::new("x");
    let buf: [u8; 4] = kani::any();
    let len: usize = kani::any();
    kani::assume(len <= 4);
    let b = &buf[..len];
    let o = oracle(b);
    let os: &std::ffi::OsStr = std::os::unix::ffi::OsStrExt::from_bytes(b);
    let p: RangedI64ValueParser<u8> = RangedI64ValueParser::new().range(0..=255);
    let r = TypedValueParser::parse_ref(&p, &cmd, None, os);
    match r {
        Ok(v) => { assert!(matches!(o, Some(w) if w == v as i64)); }
        Err(e) => { assert!(!matches!(o, Some(w) if w >= 0 && w <= 255)); std::mem::forget(e); }
    }
    std::mem::forget(cmd);
}
