use super::*;

#[kani::proof]
#[kani::unwind(5)]
fn rest_in_bounds() {
    let n: usize = kani::any();
    kani::assume(n <= 2);
    let mut items = Vec::new();
    let mut i = 0;
    while i < n { items.push(OsString::from("a")); i += 1; }
    let raw = RawArgs { items };
    let mut c = raw.cursor();
    let steps: usize = kani::any();
    kani::assume(steps <= 3);
    let mut j = 0;
    while j < steps { let _ = raw.next_os(&mut c); j += 1; }
    let cnt = raw.remaining(&mut c).count();
    assert!(cnt <= n);
}
