#[cfg(kani)]
mod cv_kani {
    use super::*;
    use crate::builder::ArgAction as A;
    use crate::parser::{MatchedArg, ValueSource};

    fn stub_arg_fmt(_a: &Arg, _f: &mut std::fmt::Formatter<'_>) -> std::fmt::Result { Ok(()) }
    fn stub_usage<'cmd>(_u: &crate::output::Usage<'cmd>, _used: &[Id]) -> Option<StyledStr> where 'cmd: 'cmd { None }
    fn stub_format(_a: std::fmt::Arguments<'_>) -> String { String::new() }
    fn stub_with_cmd<F: crate::error::ErrorFormatter>(e: crate::error::Error<F>, _cmd: &Command) -> crate::error::Error<F> { e }

    fn put(m: &mut ArgMatcher, id: &'static str, src: u8) {
        if src == 0 { return; }
        let ma = m.entry(Id::from_static_ref(id)).or_insert(MatchedArg::new_group());
        ma.set_source(if src == 1 { ValueSource::DefaultValue } else { ValueSource::CommandLine });
    }

    // C03-validate (2 args): conflicts + explicit-only presence
    #[kani::proof]
    #[kani::unwind(5)]
    #[kani::stub(<Arg as std::fmt::Display>::fmt, stub_arg_fmt)]
    #[kani::stub(crate::output::Usage::create_usage_with_title, stub_usage)]
    #[kani::stub(alloc::fmt::format, stub_format)]
    #[kani::stub(crate::error::Error::with_cmd, stub_with_cmd)]
    fn validate_two_args() {
        let conf: bool = kani::any();
        let req_b: bool = kani::any();
        let mut a = Arg::new("a").short('a').action(A::SetTrue);
        if conf { a = a.conflicts_with("b"); }
        a._build();
        let mut b = Arg::new("b").short('b').action(A::SetTrue).required(req_b);
        b._build();
        let cmd = Command::new("p").arg(a).arg(b);
        let mut matcher = ArgMatcher::new(&cmd);
        let sa: u8 = kani::any(); let sb: u8 = kani::any();
        kani::assume(sa <= 2 && sb <= 2);
        put(&mut matcher, "a", sa);
        put(&mut matcher, "b", sb);
        let r = Validator::new(&cmd).validate(&mut matcher);
        let a_present = sa == 2; let b_present = sb == 2;
        let conflict_violated = conf && a_present && b_present;
        // required b is excused when a conflicting arg (a) is present
        let required_violated = req_b && !b_present && !(conf && a_present);
        match r {
            Ok(()) => assert!(!conflict_violated && !required_violated),
            Err(e) => {
                assert!(conflict_violated || required_violated);
                use crate::error::ErrorKind as K;
                if conflict_violated { assert!(e.kind() == K::ArgumentConflict); } else { assert!(e.kind() == K::MissingRequiredArgument); }
                std::mem::forget(e);
            }
        }
        std::mem::forget(matcher);
        std::mem::forget(cmd);
    }
}
