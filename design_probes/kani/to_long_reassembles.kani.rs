// appended to clap_lex/src/lib.rs as `#[cfg(kani)] mod verif_kani;` — 109 s for N = 4
use super::*;
use std::ffi::OsStr;

const N: usize = 4;

fn any_os<'a>(buf: &'a [u8; N]) -> &'a OsStr {
    let len: usize = kani::any();
    kani::assume(len <= N);
    // unix OsStr = arbitrary bytes
    unsafe { OsStr::from_encoded_bytes_unchecked(&buf[..len]) }
}

#[kani::proof]
#[kani::unwind(6)]
fn to_long_reassembles() {
    let buf: [u8; N] = kani::any();
    let os = any_os(&buf);
    let arg = ParsedArg::new(os);
    let bytes = os.as_encoded_bytes();
    match arg.to_long() {
        Some((flag, value)) => {
            assert!(arg.is_long());
            assert!(!arg.is_escape());
            let fb = match flag { Ok(s) => s.as_bytes(), Err(o) => o.as_encoded_bytes() };
            assert!(bytes[0] == b'-' && bytes[1] == b'-');
            match value {
                None => {
                    assert!(bytes.len() == 2 + fb.len());
                    let mut i = 0;
                    while i < fb.len() { assert!(bytes[2 + i] == fb[i]); assert!(fb[i] != b'='); i += 1; }
                }
                Some(v) => {
                    let vb = v.as_encoded_bytes();
                    assert!(bytes.len() == 3 + fb.len() + vb.len());
                    assert!(bytes[2 + fb.len()] == b'=');
                    let mut i = 0;
                    while i < fb.len() { assert!(bytes[2 + i] == fb[i]); assert!(fb[i] != b'='); i += 1; }
                    let mut j = 0;
                    while j < vb.len() { assert!(bytes[3 + fb.len() + j] == vb[j]); j += 1; }
                }
            }
        }
        None => {
            assert!(!arg.is_long());
        }
    }
}
