use super::*;
use std::ffi::OsStr;

// ---------- C13-number: is_number == DFA from its doc comment ----------
fn dfa_is_number(b: &[u8]) -> bool {
    // digits, at most one '.', not first, before any exponent; at most one e/E, not first, not last
    let mut seen_dot = false;
    let mut e_pos: Option<usize> = None;
    let mut i = 0;
    while i < b.len() {
        let c = b[i];
        if c >= b'0' && c <= b'9' { }
        else if c == b'.' { if seen_dot || e_pos.is_some() || i == 0 { return false; } seen_dot = true; }
        else if c == b'e' || c == b'E' { if e_pos.is_some() || i == 0 { return false; } e_pos = Some(i); }
        else { return false; }
        i += 1;
    }
    match e_pos { Some(p) => p + 1 != b.len(), None => true }
}

#[kani::proof]
#[kani::unwind(7)]
fn is_number_matches_dfa() {
    const N: usize = 5;
    let buf: [u8; N] = kani::any();
    let len: usize = kani::any();
    kani::assume(len <= N);
    let mut i = 0;
    while i < N { kani::assume(buf[i] < 128); i += 1; }
    let s = std::str::from_utf8(&buf[..len]).unwrap();
    kani::cover!(len == N);
    if len > 0 { assert!(is_number(s) == dfa_is_number(&buf[..len])); }
}

// ---------- C13-short: walking a short cluster ----------
#[kani::proof]
#[kani::unwind(6)]
fn short_walk() {
    const N: usize = 4;
    let buf: [u8; N] = kani::any();
    let len: usize = kani::any();
    kani::assume(len >= 2 && len <= N);
    kani::assume(buf[0] == b'-' && buf[1] != b'-');
    let os = unsafe { OsStr::from_encoded_bytes_unchecked(&buf[..len]) };
    let arg = ParsedArg::new(os);
    let mut sf = match arg.to_short() { Some(s) => s, None => { assert!(false); return; } };
    assert!(arg.is_short());
    // walk k flags then take the value; consumed bytes + value bytes == cluster bytes
    let k: usize = kani::any();
    kani::assume(k <= 3);
    let mut consumed = 1usize; // the leading '-'
    let mut j = 0;
    while j < k {
        match sf.next_flag() {
            Some(Ok(c)) => { consumed += c.len_utf8(); }
            Some(Err(rest)) => { assert!(consumed + rest.as_encoded_bytes().len() == len); assert!(sf.next_flag().is_none()); return; }
            None => { assert!(consumed == len); return; }
        }
        j += 1;
    }
    match sf.next_value_os() {
        Some(v) => {
            let vb = v.as_encoded_bytes();
            assert!(consumed + vb.len() == len);
            let mut t = 0;
            while t < vb.len() { assert!(vb[t] == buf[consumed + t]); t += 1; }
            assert!(sf.next_flag().is_none());
            assert!(sf.is_empty());
        }
        None => { assert!(consumed == len); }
    }
}
