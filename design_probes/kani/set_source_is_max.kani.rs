#[cfg(kani)]
mod cv_kani {
    use super::*;

    fn any_source() -> ValueSource {
        match kani::any::<u8>() % 3 { 0 => ValueSource::DefaultValue, 1 => ValueSource::EnvVariable, _ => ValueSource::CommandLine }
    }
    fn rank(s: ValueSource) -> u8 { match s { ValueSource::DefaultValue => 0, ValueSource::EnvVariable => 1, ValueSource::CommandLine => 2, } }

    #[kani::proof]
    #[kani::unwind(2)]
    fn set_source_is_max() {
        let mut m = MatchedArg::new_group();
        let has: bool = kani::any();
        let a = any_source();
        if has { m.set_source(a); assert!(m.source() == Some(a)); }
        let b = any_source();
        m.set_source(b);
        let got = m.source().unwrap();
        let want = if has && rank(a) > rank(b) { a } else { b };
        assert!(got == want);
        assert!(m.check_explicit(&ArgPredicate::IsPresent) == (rank(got) != 0));
        std::mem::forget(m);
    }
}
