#[cfg(kani)]
mod cv_kani {
    use super::*;

    // C18-pos: parse_positional never panics when state is not Opt; result shape
    #[kani::proof]
    #[kani::unwind(4)]
    fn parse_positional_contract() {
        let cmd = clap::Command::new("p");
        let pos_index: usize = kani::any();
        kani::assume(pos_index < usize::MAX);
        let is_escaped: bool = kani::any();
        let which: u8 = kani::any();
        let a: usize = kani::any();
        let b: usize = kani::any();
        kani::assume(b < usize::MAX);
        let state = if which % 2 == 0 { ParseState::ValueDone } else { ParseState::Pos((a, b)) };
        let (ns, ni) = parse_positional(&cmd, pos_index, is_escaped, state);
        assert!(ni == pos_index || ni == pos_index + 1);
        match ns {
            ParseState::ValueDone => assert!(!is_escaped && ni == pos_index + 1),
            ParseState::Pos((p, n)) => assert!(p == pos_index && n >= 1),
            ParseState::Opt(_) => assert!(false),
        }
        std::mem::forget(cmd);
    }
}
