#[cfg(kani)]
mod cv_kani {
    use super::*;

    // C04-typed: wrong type is rejected and nothing is disturbed
    #[kani::proof]
    #[kani::unwind(4)]
    fn typed_access_wrong_type() {
        let mut m = ArgMatches::default();
        #[cfg(debug_assertions)]
        { m.valid_args.push(Id::from_static_ref("a")); }
        let mut ma = MatchedArg::new_group();
        ma.new_val_group();
        let x: u8 = kani::any();
        ma.append_val(AnyValue::new(x), std::ffi::OsString::from("x"));
        m.args.insert(Id::from_static_ref("a"), ma);
        // right type
        match m.try_get_one::<u8>("a") { Ok(Some(v)) => assert!(*v == x), _ => assert!(false) }
        // wrong type: error, and the value is still there
        assert!(m.try_get_one::<bool>("a").is_err());
        let r = m.try_remove_one::<bool>("a");
        assert!(r.is_err());
        std::mem::forget(r);
        match m.try_get_one::<u8>("a") { Ok(Some(v)) => assert!(*v == x), _ => assert!(false) }
        std::mem::forget(m);
    }
}
