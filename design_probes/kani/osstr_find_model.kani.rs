use super::*;
use std::ffi::OsStr;

const H: usize = 4;
const NMAX: usize = 2;

fn model_find(h: &[u8], n: &[u8]) -> Option<usize> {
    if n.len() > h.len() { return None; }
    let mut i = 0;
    while i + n.len() <= h.len() {
        let mut ok = true;
        let mut j = 0;
        while j < n.len() { if h[i + j] != n[j] { ok = false; } j += 1; }
        if ok { return Some(i); }
        i += 1;
    }
    None
}

#[kani::proof]
#[kani::unwind(7)]
fn find_matches_model() {
    let hb: [u8; H] = kani::any();
    let hl: usize = kani::any();
    kani::assume(hl <= H);
    let nb: [u8; NMAX] = kani::any();
    let nl: usize = kani::any();
    kani::assume(nl >= 1 && nl <= NMAX);
    let h = unsafe { OsStr::from_encoded_bytes_unchecked(&hb[..hl]) };
    let n = match std::str::from_utf8(&nb[..nl]) { Ok(s) => s, Err(_) => return };
    kani::cover!(true);
    let got = h.find(n);
    let want = model_find(&hb[..hl], &nb[..nl]);
    assert!(got == want);
    assert!(h.contains(n) == want.is_some());
    assert!(h.starts_with(n) == (want == Some(0)));
    match h.split_once(n) {
        None => assert!(want.is_none()),
        Some((a, b)) => {
            let i = want.unwrap();
            assert!(a.as_encoded_bytes().len() == i);
            assert!(b.as_encoded_bytes().len() == hl - i - nl);
        }
    }
}
