#[cfg(kani)]
mod cv_kani {
    use super::*;

    // C10-suggest: every suggestion is one of the candidates
    #[kani::proof]
    #[kani::unwind(6)]
    fn suggestions_are_candidates() {
        let vb: [u8; 2] = kani::any();
        let c1: [u8; 2] = kani::any();
        let c2: [u8; 2] = kani::any();
        let mut i = 0;
        while i < 2 { kani::assume(vb[i] >= b'a' && vb[i] <= b'c'); kani::assume(c1[i] >= b'a' && c1[i] <= b'c'); kani::assume(c2[i] >= b'a' && c2[i] <= b'c'); i += 1; }
        let v = std::str::from_utf8(&vb).unwrap();
        let s1 = std::str::from_utf8(&c1).unwrap();
        let s2 = std::str::from_utf8(&c2).unwrap();
        let out = did_you_mean(v, [s1, s2]);
        assert!(out.len() <= 2);
        let mut j = 0;
        while j < out.len() { assert!(out[j] == s1 || out[j] == s2); j += 1; }
        std::mem::forget(out);
    }
}
