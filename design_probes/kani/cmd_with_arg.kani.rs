use crate::builder::*;
use crate::*;

#[kani::proof]
#[kani::unwind(4)]
fn cmd_with_arg() {
    let mut a = Arg::new("a").short('a').action(ArgAction::SetTrue);
    a._build();
    let cmd = Command::new("p").arg(a);
    assert!(cmd.get_arguments().count() == 1);
    std::mem::forget(cmd);
}

#[kani::proof]
#[kani::unwind(4)]
fn cmd_find() {
    let mut a = Arg::new("a").short('a').action(ArgAction::SetTrue);
    a._build();
    let cmd = Command::new("p").arg(a);
    let id = crate::util::Id::from_static_ref("a");
    assert!(cmd.find(&id).is_some());
    std::mem::forget(cmd);
}
