#[cfg(kani)]
mod cv_kani {
    use super::*;

    // C20-words: concatenation == line; every word = nonspace* space*, none empty
    #[kani::proof]
    #[kani::unwind(8)]
    fn words_partition_line() {
        const N: usize = 5;
        let sel: [u8; N] = kani::any();
        let len: usize = kani::any();
        kani::assume(len <= N);
        let mut buf = [b'a'; N];
        let mut i = 0;
        while i < N { buf[i] = match sel[i] % 3 { 0 => b' ', 1 => b'a', _ => b'\n' }; i += 1; }
        let line = std::str::from_utf8(&buf[..len]).unwrap();
        let mut it = find_words_ascii_space(line);
        let mut pos = 0usize;
        let mut n = 0;
        while n < N + 1 {
            match it.next() {
                Some(w) => {
                    let wb = w.as_bytes();
                    assert!(wb.len() > 0);
                    // w is the next slice of the line
                    let mut t = 0; let mut in_space = false;
                    while t < wb.len() {
                        assert!(wb[t] == buf[pos + t]);
                        if wb[t] == b' ' { in_space = true; } else { assert!(!in_space); }
                        t += 1;
                    }
                    pos += wb.len();
                }
                None => { break; }
            }
            n += 1;
        }
        assert!(pos == len);
    }
}
