#[cfg(kani)]
mod cv_kani {
    use super::*;
    use crate::builder::ArgAction as A;

    fn stub_usage<'cmd>(_u: &crate::output::Usage<'cmd>, _used: &[Id]) -> Option<crate::builder::StyledStr> where 'cmd: 'cmd { None }
    fn stub_format(_a: std::fmt::Arguments<'_>) -> String { String::new() }
    fn stub_with_cmd<F: crate::error::ErrorFormatter>(e: crate::error::Error<F>, _cmd: &Command) -> crate::error::Error<F> { e }
    fn stub_lossy(_s: &std::ffi::OsStr) -> std::borrow::Cow<'_, str> { std::borrow::Cow::Borrowed("") }
    fn stub_arg_to_string(_a: &Arg) -> String { String::new() }
    fn stub_pvs(_a: &Arg) -> Vec<crate::builder::PossibleValue> { Vec::new() }
    fn stub_arg_fmt(_a: &Arg, _f: &mut std::fmt::Formatter<'_>) -> std::fmt::Result { Ok(()) }

    fn flag(id: &'static str, c: char) -> Arg { let mut a = Arg::new(id).short(c).action(A::SetTrue); a._build(); a }

    // (a) remove_overrides: a overrides b (symbolic), b overrides a (symbolic); b present; start a
    #[kani::proof]
    #[kani::unwind(4)]
    fn p_remove_overrides() {
        let ab: bool = kani::any();
        let ba: bool = kani::any();
        let mut a = Arg::new("a").short('a').action(A::SetTrue);
        if ab { a = a.overrides_with("b"); }
        a._build();
        let mut b = Arg::new("b").short('b').action(A::SetTrue);
        if ba { b = b.overrides_with("a"); }
        b._build();
        let mut cmd = Command::new("p").arg(a).arg(b);
        let mut matcher = ArgMatcher::new(&cmd);
        let parser = Parser::new(&mut cmd);
        let ida = Id::from_static_ref("a");
        let idb = Id::from_static_ref("b");
        let arg_a = parser.cmd.find(&ida).unwrap();
        let arg_b = parser.cmd.find(&idb).unwrap();
        let _ = matcher.entry(idb.clone()).or_insert(crate::parser::MatchedArg::new_group());
        parser.remove_overrides(arg_a, &mut matcher);
        assert!(matcher.contains(&idb) == !(ab || ba));
        std::mem::forget(matcher);
        std::mem::forget(parser);
    }

    // (b) verify_num_args classification
    #[kani::proof]
    #[kani::unwind(5)]
    #[kani::stub(crate::output::Usage::create_usage_with_title, stub_usage)]
    #[kani::stub(alloc::fmt::format, stub_format)]
    #[kani::stub(crate::error::Error::with_cmd, stub_with_cmd)]
    #[kani::stub(std::ffi::OsStr::to_string_lossy, stub_lossy)]
    #[kani::stub(crate::parser::validator::get_possible_values_cli, stub_pvs)]
    #[kani::stub(<Arg as std::fmt::Display>::fmt, stub_arg_fmt)]
    fn p_verify_num_args() {
        let lo: usize = kani::any();
        let hi: usize = kani::any();
        kani::assume(lo <= hi);
        let n: usize = kani::any();
        kani::assume(n <= 3);
        let mut a = Arg::new("o").long("o").action(A::Append).num_args(lo..=hi);
        a._build();
        let mut cmd = Command::new("p").arg(a);
        let parser = Parser::new(&mut cmd);
        let arg = parser.cmd.find(&Id::from_static_ref("o")).unwrap();
        let mut vals: Vec<OsString> = Vec::new();
        let mut i = 0;
        while i < n { vals.push(OsString::from("v")); i += 1; }
        let r = parser.verify_num_args(arg, &vals);
        match r {
            Ok(()) => assert!(lo <= n && n <= hi),
            Err(e) => {
                use crate::error::ErrorKind as K;
                let k = e.kind();
                if n == 0 && lo > 0 { assert!(k == K::InvalidValue); }
                else if lo == hi { assert!(n != lo && k == K::WrongNumberOfValues); }
                else if n < lo { assert!(k == K::TooFewValues); }
                else { assert!(n > hi && k == K::TooManyValues); }
                std::mem::forget(e);
            }
        }
        std::mem::forget(vals);
        std::mem::forget(parser);
    }

    // (c) start_custom_arg with group
    #[kani::proof]
    #[kani::unwind(4)]
    fn p_start_custom_arg() {
        let a = flag("a", 'a');
        let mut cmd = Command::new("p").arg(a).group(crate::builder::ArgGroup::new("g").arg("a"));
        let mut matcher = ArgMatcher::new(&cmd);
        let parser = Parser::new(&mut cmd);
        let ida = Id::from_static_ref("a");
        let idg = Id::from_static_ref("g");
        let arg_a = parser.cmd.find(&ida).unwrap();
        parser.start_custom_arg(&mut matcher, arg_a, ValueSource::CommandLine);
        assert!(matcher.contains(&ida));
        assert!(matcher.contains(&idg));
        assert!(parser.cmd.find(&idg).is_none());
        std::mem::forget(matcher);
        std::mem::forget(parser);
    }
}
