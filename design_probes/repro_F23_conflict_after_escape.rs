use clap::error::ErrorKind;
use clap::{Arg, ArgAction, Command};
fn cmd() -> Command {
    Command::new("p")
        .args_conflicts_with_subcommands(true)
        .arg(Arg::new("f").long("f").action(ArgAction::SetTrue))
        .subcommand(Command::new("test"))
}
#[test]
fn control_without_the_flag() {
    let e = cmd().try_get_matches_from(["p", "--", "test"]).unwrap_err();
    assert_eq!(e.kind(), ErrorKind::UnknownArgument);
}
#[test]
fn control_a_real_conflict() {
    let e = cmd().try_get_matches_from(["p", "--f", "test"]).unwrap_err();
    assert_eq!(e.kind(), ErrorKind::ArgumentConflict);
}
#[test]
fn after_the_escape_nothing_is_a_subcommand() {
    // `test` after `--` is a positional value (and there is no positional): an unknown argument, not a conflict with "the subcommand"
    let e = cmd().try_get_matches_from(["p", "--f", "--", "test"]).unwrap_err();
    assert_eq!(e.kind(), ErrorKind::UnknownArgument);
    let e = cmd().try_get_matches_from(["p", "--", "tset"]).unwrap_err();
    assert_eq!(e.kind(), ErrorKind::UnknownArgument);
}
