use clap_builder::{Arg, ArgAction, Command};
fn main() {
    let cmd = Command::new("p")
        .args_conflicts_with_subcommands(true)
        .arg(Arg::new("a").short('a').action(ArgAction::SetTrue).group("g"))
        .subcommand(Command::new("s").long_flag("sync"));
    let r = std::panic::catch_unwind(std::panic::AssertUnwindSafe(move || cmd.try_get_matches_from(["p", "-a", "--sync"]).map(|_| ()).map_err(|e| e.kind())));
    println!("F1: {:?}", r.map_err(|_| "PANIC"));
}
