use clap::{Arg, ArgAction, Command};
fn cmd() -> Command {
    Command::new("bin")
        .infer_subcommands(true)
        .arg(Arg::new("verbose").long("verbose").action(ArgAction::SetTrue))
        .subcommand(Command::new("sync").long_flag_alias("synchronize"))
        .subcommand(Command::new("other").long_flag("other"))
}
#[test]
fn control_full_alias() {
    let m = cmd().try_get_matches_from(["bin", "--synchronize"]).unwrap();
    assert_eq!(m.subcommand_name(), Some("sync"));
}
#[test]
fn control_prefix_of_long_flag() {
    let m = cmd().try_get_matches_from(["bin", "--oth"]).unwrap();
    assert_eq!(m.subcommand_name(), Some("other"));
}
#[test]
fn unambiguous_prefix_of_alias_only_flag_subcommand() {
    // `--synchro` is an unambiguous prefix of the only long spelling of `sync`
    let r = cmd().try_get_matches_from(["bin", "--synchro"]);
    let m = r.expect("unambiguous prefix should resolve like the full name");
    assert_eq!(m.subcommand_name(), Some("sync"));
}
