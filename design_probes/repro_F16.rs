use clap::{error::ErrorKind, Arg, ArgAction, Command};
fn cmd() -> Command {
    Command::new("test")
        .args_conflicts_with_subcommands(true)
        .arg(Arg::new("flag").long("flag").action(ArgAction::SetTrue))
        .subcommand(Command::new("sub1"))
}
#[test]
fn control_real_subcommand_after_an_argument_is_a_conflict() {
    let e = cmd().try_get_matches_from(["test", "--flag", "sub1"]).unwrap_err();
    assert_eq!(e.kind(), ErrorKind::ArgumentConflict);
}
#[test]
fn unknown_token_after_an_argument_is_not_a_conflict() {
    let e = cmd().try_get_matches_from(["test", "--flag", "bogus"]).unwrap_err();
    assert_ne!(e.kind(), ErrorKind::ArgumentConflict, "{e}");
    let e = cmd().try_get_matches_from(["test", "--flag", "su1"]).unwrap_err();
    assert_eq!(e.kind(), ErrorKind::InvalidSubcommand, "{e}");
}
