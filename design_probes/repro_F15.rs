use clap::{Arg, ArgAction, Command};
fn cmd() -> Command {
    Command::new("prog")
        .dont_delimit_trailing_values(true)
        .arg(Arg::new("pos").action(ArgAction::Append).num_args(1..).value_delimiter(','))
}
fn vals(argv: &[&str]) -> Vec<String> {
    cmd().try_get_matches_from(argv).unwrap().get_many::<String>("pos").unwrap().cloned().collect()
}
#[test]
fn control_all_trailing() {
    assert_eq!(vals(&["prog", "--", "c,d", "e,f"]), ["c,d", "e,f"]);
    assert_eq!(vals(&["prog", "a,b"]), ["a", "b"]);
}
#[test]
fn every_value_after_the_escape_is_kept_whole() {
    assert_eq!(vals(&["prog", "a,b", "--", "c,d", "e,f"]), ["a", "b", "c,d", "e,f"]);
}
