use clap::{Arg, ArgAction, Command};
use std::ffi::OsString;
fn main() {
    let mut cmd = Command::new("p")
        .arg(Arg::new("opt").long("opt").action(ArgAction::Set))
        .arg(Arg::new("pos").allow_hyphen_values(true).action(ArgAction::Set));
    let args: Vec<OsString> = ["p", "--opt", "--unknown", ""].iter().map(|s| OsString::from(*s)).collect();
    let r = std::panic::catch_unwind(std::panic::AssertUnwindSafe(move || clap_complete::engine::complete(&mut cmd, args, 3, None).map(|v| v.len()).map_err(|e| e.to_string())));
    println!("F4: {:?}", r.map_err(|_| "PANIC"));
}
