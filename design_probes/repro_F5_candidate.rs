fn main() {
    let raw = clap_lex::RawArgs::new(["-"]);
    let mut c = raw.cursor();
    let a = raw.next(&mut c).unwrap();
    println!("'-': is_stdio={} is_short={} is_negative_number={}", a.is_stdio(), a.is_short(), a.is_negative_number());
}
