// F2: help padding underflow (help_template.rs:588). Scratch crate depending on /repo/clap_builder by path.
use clap_builder::{Arg, ArgAction, Command};
fn main() {
    let mut cmd = Command::new("p").disable_help_flag(true).arg(Arg::new("v").short('v').action(ArgAction::Count).help("H"));
    let r = std::panic::catch_unwind(std::panic::AssertUnwindSafe(move || cmd.render_help().to_string()));
    println!("{:?}", r.map(|s| s.len())); // Err(..) = panicked, debug and release
}
