use clap::{Arg, ArgAction, Command};

fn cmd() -> Command {
    Command::new("prog")
        .arg(Arg::new("verbose").short('v').action(ArgAction::SetTrue))
        .subcommand(
            Command::new("sync").short_flag('S')
                .arg(Arg::new("y").short('y').action(ArgAction::SetTrue))
                .arg(Arg::new("z").short('z').action(ArgAction::SetTrue)),
        )
}
#[test]
fn control_first_in_cluster() {
    let m = cmd().try_get_matches_from(["prog", "-Sy"]).unwrap();
    let (n, s) = m.subcommand().unwrap();
    assert_eq!(n, "sync");
    assert!(s.get_flag("y"));
    let m = cmd().try_get_matches_from(["prog", "-vS"]).unwrap();
    assert!(m.get_flag("verbose"));
    assert_eq!(m.subcommand_name(), Some("sync"));
}
#[test]
fn flag_subcommand_after_another_flag() {
    let m = cmd().try_get_matches_from(["prog", "-vSy"]).unwrap();
    assert!(m.get_flag("verbose"));
    let (n, s) = m.subcommand().unwrap();
    assert_eq!(n, "sync");
    assert!(s.get_flag("y"));
    assert!(!s.get_flag("z"));
}
#[test]
fn flag_subcommand_after_another_flag_two() {
    let m = cmd().try_get_matches_from(["prog", "-vSyz"]).unwrap();
    let (_, s) = m.subcommand().unwrap();
    assert!(s.get_flag("y") && s.get_flag("z"));
}
fn cmd2() -> Command {
    Command::new("prog").subcommand(
        Command::new("sync").short_flag('S')
            .arg(Arg::new("y").short('y').action(ArgAction::SetTrue))
            .arg(Arg::new("pos").allow_hyphen_values(true).num_args(0..).action(ArgAction::Append)),
    )
}
#[test]
fn reentered_cluster_is_not_a_value() {
    let m = cmd2().try_get_matches_from(["prog", "-Sy"]).unwrap();
    let (_, s) = m.subcommand().unwrap();
    assert!(s.get_flag("y"), "y not set; pos = {:?}", s.get_many::<String>("pos").map(|v| v.collect::<Vec<_>>()));
    assert!(s.get_many::<String>("pos").is_none());
}
