fn main() {
    let raw = clap_lex::RawArgs::new(["a"]);
    let mut c = raw.cursor();
    assert!(raw.next_os(&mut c).is_some());
    assert!(raw.next_os(&mut c).is_none());
    println!("is_end={}", raw.is_end(&c));
    let r = std::panic::catch_unwind(std::panic::AssertUnwindSafe(|| { let mut c2 = c.clone(); raw.remaining(&mut c2).count() }));
    println!("remaining after over-read: {:?}", r.is_ok());
    let mut raw2 = raw.clone();
    let r = std::panic::catch_unwind(std::panic::AssertUnwindSafe(|| { raw2.insert(&c, ["x"]); }));
    println!("insert after over-read: {:?}", r.is_ok());
}
