use clap::{Arg, ArgAction, Command};
fn cmd() -> Command {
    Command::new("prog")
        .arg(Arg::new("verbose").short('v').action(ArgAction::SetTrue))
        .arg(Arg::new("rest").action(ArgAction::Append).num_args(0..).allow_hyphen_values(true))
        .subcommand(Command::new("sync").short_flag('S').long_flag("sync").arg(Arg::new("y").short('y').action(ArgAction::SetTrue)))
}
#[test]
fn control_long_flag_subcommand_and_unknown_short() {
    let m = cmd().try_get_matches_from(["prog", "--sync", "-y"]).unwrap();
    assert_eq!(m.subcommand_name(), Some("sync"));
    // an unknown short still goes to the hyphen-accepting positional
    let m = cmd().try_get_matches_from(["prog", "-z"]).unwrap();
    assert_eq!(m.get_many::<String>("rest").unwrap().collect::<Vec<_>>(), ["-z"]);
}
#[test]
fn short_flag_subcommand_is_a_known_flag() {
    for argv in [vec!["prog", "-S"], vec!["prog", "-Sy"], vec!["prog", "-vSy"]] {
        let m = cmd().try_get_matches_from(&argv).unwrap();
        assert_eq!(m.subcommand_name(), Some("sync"), "{argv:?}: rest = {:?}", m.get_many::<String>("rest").map(|v| v.collect::<Vec<_>>()));
    }
}
