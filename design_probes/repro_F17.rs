use clap::{error::ErrorKind, Arg, ArgAction, ArgGroup, Command};
fn cmd() -> Command {
    Command::new("p")
        .arg(Arg::new("excl").long("excl").action(ArgAction::SetTrue).exclusive(true))
        .arg(Arg::new("req").long("req").action(ArgAction::SetTrue).required(true))
        .arg(Arg::new("a").long("a").action(ArgAction::SetTrue))
        .arg(Arg::new("b").long("b").action(ArgAction::SetTrue))
        .group(ArgGroup::new("g").args(["a", "b"]).required(true))
}
#[test]
fn control_group_is_required_without_the_exclusive_arg() {
    let e = cmd().try_get_matches_from(["p", "--req"]).unwrap_err();
    assert_eq!(e.kind(), ErrorKind::MissingRequiredArgument);
    assert!(cmd().try_get_matches_from(["p", "--req", "--a"]).is_ok());
}
#[test]
fn an_exclusive_argument_excuses_a_required_group_too() {
    // it already excuses the required argument --req; the required group must not make --excl unusable
    let r = cmd().try_get_matches_from(["p", "--excl"]);
    assert!(r.is_ok(), "{}", r.unwrap_err());
}
