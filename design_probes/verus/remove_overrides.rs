use vstd::prelude::*;
use vstd::std_specs::iter::IteratorSpec;
verus! {

// ---- assumed environment (X6) ----
#[verifier::external_body]
#[derive(PartialEq, Eq)]
struct Id { _p: () }

struct Arg {
    id: Id,
    overrides: Vec<Id>,
}

#[verifier::external_body]
struct Command { _p: () }
#[verifier::external_body]
struct ArgMatcher { _p: () }

uninterp spec fn cmd_args(c: &Command) -> Seq<Arg>;
uninterp spec fn m_keys(m: &ArgMatcher) -> Seq<Id>;

spec fn has_arg(c: &Command, id: Id) -> bool {
    exists|j: int| 0 <= j < cmd_args(c).len() && #[trigger] cmd_args(c)[j].id == id
}
spec fn the_arg(c: &Command, id: Id) -> Arg {
    let j = choose|j: int| 0 <= j < cmd_args(c).len() && #[trigger] cmd_args(c)[j].id == id;
    cmd_args(c)[j]
}

impl Arg {
    #[verifier::external_body]
    fn get_id(&self) -> (r: &Id) ensures *r == self.id { unimplemented!() }
}

impl Command {
    #[verifier::external_body]
    fn find(&self, arg_id: &Id) -> (r: Option<&Arg>)
        ensures
            r.is_some() == has_arg(self, *arg_id),
            r.is_some() ==> *r.unwrap() == the_arg(self, *arg_id) && r.unwrap().id == *arg_id,
    { unimplemented!() }
}

spec fn without(s: Seq<Id>, x: Id) -> Seq<Id>
    decreases s.len()
{
    if s.len() == 0 { Seq::empty() }
    else if s.last() == x { without(s.drop_last(), x) }
    else { without(s.drop_last(), x).push(s.last()) }
}

spec fn keep_all(s: Seq<Id>, removed: Seq<Id>) -> Seq<Id>
    decreases s.len()
{
    if s.len() == 0 { Seq::empty() }
    else if removed.contains(s.last()) { keep_all(s.drop_last(), removed) }
    else { keep_all(s.drop_last(), removed).push(s.last()) }
}

impl ArgMatcher {
    #[verifier::external_body]
    fn remove(&mut self, arg: &Id) -> (r: bool)
        ensures m_keys(final(self)) == without(m_keys(old(self)), *arg)
    { unimplemented!() }

    #[verifier::external_body]
    fn arg_ids(&self) -> (r: std::slice::Iter<'_, Id>)
        ensures r.remaining() == m_keys(self).as_ref(),
            vstd::std_specs::slice::into_iter_elts(r) == m_keys(self),
    { unimplemented!() }
}

pub assume_specification<T: PartialEq> [ <[T]>::contains ] (s: &[T], x: &T) -> (r: bool)
    ensures r == s@.contains(*x);

struct Parser<'cmd> {
    cmd: &'cmd mut Command,
}

spec fn pcmd<'a, 'b>(p: &'b Parser<'a>) -> &'b Command { &*p.cmd }

proof fn lemma_push_contains(r: Seq<Id>, x: Id, l: Id)
    ensures r.push(x).contains(l) <==> (r.contains(l) || l == x)
{
    if r.contains(l) { let i = choose|i: int| 0 <= i < r.len() && r[i] == l; assert(r.push(x)[i] == l); }
    if l == x { assert(r.push(x)[r.len() as int] == x); }
    if r.push(x).contains(l) {
        let i = choose|i: int| 0 <= i < r.push(x).len() && r.push(x)[i] == l;
        if i < r.len() { assert(r[i] == l); }
    }
}

proof fn lemma_without_step(s: Seq<Id>, removed: Seq<Id>, x: Id)
    ensures without(keep_all(s, removed), x) =~= keep_all(s, removed.push(x))
    decreases s.len()
{
    if s.len() > 0 {
        lemma_without_step(s.drop_last(), removed, x);
        lemma_push_contains(removed, x, s.last());
        let k = keep_all(s.drop_last(), removed);
        if !removed.contains(s.last()) {
            assert(k.push(s.last()).drop_last() =~= k);
        }
    }
}

proof fn lemma_keep_all_empty(s: Seq<Id>)
    ensures keep_all(s, Seq::<Id>::empty()) =~= s
    decreases s.len()
{
    if s.len() > 0 { lemma_keep_all_empty(s.drop_last()); assert(s.drop_last().push(s.last()) =~= s); }
}


spec fn is_overrider(c: &Command, a: &Arg, k: Id) -> bool {
    has_arg(c, k) && the_arg(c, k).overrides@.contains(a.id)
}

// ids of s (in order) that override `a`
spec fn sel(s: Seq<Id>, c: &Command, a: &Arg) -> Seq<Id>
    decreases s.len()
{
    if s.len() == 0 { Seq::empty() }
    else if is_overrider(c, a, s.last()) { sel(s.drop_last(), c, a).push(s.last()) }
    else { sel(s.drop_last(), c, a) }
}

spec fn deref_all(v: Seq<&Id>) -> Seq<Id> { v.map_values(|r: &Id| *r) }

// the property: what survives starting an occurrence of `a`
spec fn survives(c: &Command, a: &Arg, k: Id) -> bool {
    !a.overrides@.contains(k) && !is_overrider(c, a, k)
}
spec fn keep_surv(s: Seq<Id>, c: &Command, a: &Arg) -> Seq<Id>
    decreases s.len()
{
    if s.len() == 0 { Seq::empty() }
    else if survives(c, a, s.last()) { keep_surv(s.drop_last(), c, a).push(s.last()) }
    else { keep_surv(s.drop_last(), c, a) }
}

proof fn lemma_sel_contains(s: Seq<Id>, c: &Command, a: &Arg, k: Id)
    ensures sel(s, c, a).contains(k) <==> (s.contains(k) && is_overrider(c, a, k))
    decreases s.len()
{
    if s.len() > 0 {
        lemma_sel_contains(s.drop_last(), c, a, k);
        let p = s.drop_last(); let l = s.last();
        assert(s =~= p.push(l));
        lemma_push_contains(p, l, k);
        if is_overrider(c, a, l) { lemma_push_contains(sel(p, c, a), l, k); }
    } else {
        assert(!s.contains(k));
        assert(!sel(s, c, a).contains(k));
    }
}

proof fn lemma_keep_all_contains(s: Seq<Id>, r: Seq<Id>, k: Id)
    ensures keep_all(s, r).contains(k) <==> (s.contains(k) && !r.contains(k))
    decreases s.len()
{
    if s.len() > 0 {
        let p = s.drop_last(); let l = s.last();
        lemma_keep_all_contains(p, r, k);
        assert(s =~= p.push(l));
        lemma_push_contains(p, l, k);
        if !r.contains(l) { lemma_push_contains(keep_all(p, r), l, k); }
    } else {
        assert(!s.contains(k));
        assert(!keep_all(s, r).contains(k));
    }
}

// two-stage removal == one-stage filter by `survives`
proof fn lemma_two_stage(s: Seq<Id>, whole: Seq<Id>, c: &Command, a: &Arg)
    requires forall|k: Id| s.contains(k) ==> whole.contains(k)
    ensures keep_all(keep_all(s, a.overrides@), sel(keep_all(whole, a.overrides@), c, a)) =~= keep_surv(s, c, a)
    decreases s.len()
{
    if s.len() > 0 {
        let p = s.drop_last(); let l = s.last();
        assert(s =~= p.push(l));
        assert forall|k: Id| p.contains(k) implies whole.contains(k) by { lemma_push_contains(p, l, k); }
        lemma_two_stage(p, whole, c, a);
        let t = sel(keep_all(whole, a.overrides@), c, a);
        lemma_sel_contains(keep_all(whole, a.overrides@), c, a, l);
        lemma_keep_all_contains(whole, a.overrides@, l);
        lemma_push_contains(p, l, l);
        if !a.overrides@.contains(l) {
            let k1 = keep_all(p, a.overrides@);
            assert(k1.push(l).drop_last() =~= k1);
        }
    }
}

impl<'cmd> Parser<'cmd> {
    #[verifier::exec_allows_no_decreases_clause]
    fn remove_overrides(&self, arg: &Arg, matcher: &mut ArgMatcher)
        ensures m_keys(final(matcher)) =~= keep_surv(m_keys(old(matcher)), pcmd(self), arg),
    {
        proof { lemma_keep_all_empty(m_keys(matcher)); assert(arg.overrides@.subrange(0, 0) =~= Seq::<Id>::empty()); }
        for override_id in it: &arg.overrides
            invariant
                m_keys(matcher) =~= keep_all(m_keys(old(matcher)), arg.overrides@.subrange(0, it.index@)),
        {
            proof {
                lemma_without_step(m_keys(old(matcher)), arg.overrides@.subrange(0, it.index@), *override_id);
                assert(arg.overrides@.subrange(0, it.index@ + 1) =~= arg.overrides@.subrange(0, it.index@).push(arg.overrides@[it.index@]));
            }
            matcher.remove(override_id);
        }

        // Override anything that can override us
        let mut transitive = Vec::new();
        let ghost keys1 = m_keys(matcher);
        proof { assert(arg.overrides@.subrange(0, arg.overrides@.len() as int) =~= arg.overrides@); assert(keys1.subrange(0, 0) =~= Seq::<Id>::empty()); }
        for arg_id in it2: matcher.arg_ids()
            invariant
                m_keys(matcher) == keys1,
                it2.seq() == keys1.as_ref(),
                deref_all(transitive@) =~= sel(keys1.subrange(0, it2.index@), pcmd(self), arg),
        {
            proof {
                assert(keys1.subrange(0, it2.index@ + 1) =~= keys1.subrange(0, it2.index@).push(keys1[it2.index@]));
                assert(keys1.subrange(0, it2.index@ + 1).drop_last() =~= keys1.subrange(0, it2.index@));
                assert(*arg_id == keys1[it2.index@]);
            }
            if let Some(overrider) = self.cmd.find(arg_id) {
                if overrider.overrides.contains(arg.get_id()) {
                    transitive.push(overrider.get_id());
                }
            }
        }
        let ghost tr = deref_all(transitive@);
        proof { assert(keys1.subrange(0, keys1.len() as int) =~= keys1); lemma_keep_all_empty(keys1); assert(tr.subrange(0, 0) =~= Seq::<Id>::empty()); }
        for overrider_id in it3: transitive
            invariant
                it3.seq().len() == tr.len(),
                forall|j: int| 0 <= j < tr.len() ==> *#[trigger] it3.seq()[j] == tr[j],
                m_keys(matcher) =~= keep_all(keys1, tr.subrange(0, it3.index@)),
        {
            proof {
                lemma_without_step(keys1, tr.subrange(0, it3.index@), *overrider_id);
                assert(tr.subrange(0, it3.index@ + 1) =~= tr.subrange(0, it3.index@).push(tr[it3.index@]));
            }
            matcher.remove(overrider_id);
        }
        proof {
            assert(tr.subrange(0, tr.len() as int) =~= tr);
            lemma_two_stage(m_keys(old(matcher)), m_keys(old(matcher)), pcmd(self), arg);
        }
    }
}
}
fn main() {}
