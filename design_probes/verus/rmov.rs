use vstd::prelude::*;
use vstd::std_specs::iter::IteratorSpec;
verus! {

// ---- assumed environment (X6) ----
#[verifier::external_body]
#[derive(PartialEq, Eq)]
pub struct Id { _p: () }

pub struct Arg {
    id: Id,
    overrides: Vec<Id>,
}

#[verifier::external_body]
pub struct Command { _p: () }
#[verifier::external_body]
pub struct ArgMatcher { _p: () }

pub uninterp spec fn cmd_args(c: &Command) -> Seq<Arg>;
pub uninterp spec fn m_keys(m: &ArgMatcher) -> Seq<Id>;

impl Arg {
    #[verifier::external_body]
    fn get_id(&self) -> (r: &Id) ensures *r == self.id { unimplemented!() }
}

impl Command {
    #[verifier::external_body]
    fn find(&self, arg_id: &Id) -> (r: Option<&Arg>)
        ensures
            r.is_some() ==> exists|j: int| 0 <= j < cmd_args(self).len() && cmd_args(self)[j] == *r.unwrap() && r.unwrap().id == *arg_id,
            r.is_none() ==> forall|j: int| 0 <= j < cmd_args(self).len() ==> cmd_args(self)[j].id != *arg_id,
    { unimplemented!() }
}

impl ArgMatcher {
    #[verifier::external_body]
    fn remove(&mut self, arg: &Id) -> (r: bool)
        ensures m_keys(final(self)) == m_keys(old(self)).filter(|k: Id| k != *arg)
    { unimplemented!() }

    #[verifier::external_body]
    fn arg_ids(&self) -> (r: std::slice::Iter<'_, Id>)
        ensures r.remaining() == m_keys(self).map_values(|k: Id| &k)
    { unimplemented!() }
}

pub assume_specification<T: PartialEq> [ <[T]>::contains ] (s: &[T], x: &T) -> (r: bool)
    ensures r == s@.contains(*x);

pub struct Parser<'cmd> {
    cmd: &'cmd mut Command,
}

impl<'cmd> Parser<'cmd> {
    #[verifier::exec_allows_no_decreases_clause]
    fn remove_overrides(&self, arg: &Arg, matcher: &mut ArgMatcher) {
        for override_id in &arg.overrides {
            matcher.remove(override_id);
        }

        // Override anything that can override us
        let mut transitive = Vec::new();
        for arg_id in matcher.arg_ids() {
            if let Some(overrider) = self.cmd.find(arg_id) {
                if overrider.overrides.contains(arg.get_id()) {
                    transitive.push(overrider.get_id());
                }
            }
        }
        for overrider_id in transitive {
            matcher.remove(overrider_id);
        }
    }
}
}
fn main() {}
