use vstd::prelude::*;
verus! {

// ---- assumed environment (X6) ----
#[verifier::external_body] pub struct ArgMatches { _p: () }
#[verifier::external_body] pub struct ArgMatcher { _p: () }
#[verifier::external_body] pub struct ClapError { _p: () }
#[verifier::external_body] pub struct RawArgs { _p: () }
#[verifier::external_body] pub struct ArgCursor { _p: () }
#[verifier::external_body] pub struct Id { _p: () }
#[verifier::external_body] pub struct SubCommand { _p: () }
pub type ClapResult<T> = Result<T, ClapError>;

pub enum AppSettings { IgnoreErrors, Built }

pub uninterp spec fn err_use_stderr(e: &ClapError) -> bool;   // discharged for all kinds by unit C10-exit (K∞)
pub uninterp spec fn cmd_ignore_errors(c: &Command) -> bool;
pub uninterp spec fn inner_is_err(c: &Command) -> bool;          // outcome of the parser on (built) command c and these args
pub uninterp spec fn inner_err_stderr(c: &Command) -> bool;      // use_stderr() of that error
pub uninterp spec fn built(c: &Command) -> Command;

impl ClapError {
    #[verifier::external_body]
    fn use_stderr(&self) -> (r: bool) ensures r == err_use_stderr(self) { unimplemented!() }
}

#[verifier::external_body] pub struct Command { _p: () }

pub struct Parser<'cmd> { cmd: &'cmd mut Command }

impl<'cmd> Parser<'cmd> {
    #[verifier::external_body]
    fn new(cmd: &'cmd mut Command) -> (r: Self)
        ensures cmd_ignore_errors(r.cmd) == cmd_ignore_errors(old(cmd)), cmd_ignore_errors(final(cmd)) == cmd_ignore_errors(old(cmd)),
            *r.cmd == *old(cmd)
    { unimplemented!() }
    #[verifier::external_body]
    fn get_matches_with(&mut self, matcher: &mut ArgMatcher, raw_args: &mut RawArgs, args_cursor: ArgCursor) -> (r: ClapResult<()>)
        ensures cmd_ignore_errors(final(self).cmd) == cmd_ignore_errors(old(self).cmd),
            (r is Err) == inner_is_err(old(self).cmd),
            r is Err ==> err_use_stderr(&r->Err_0) == inner_err_stderr(old(self).cmd)
    { unimplemented!() }
}

impl ArgMatcher {
    #[verifier::external_body] fn new(_cmd: &Command) -> Self { unimplemented!() }
    #[verifier::external_body] fn propagate_globals(&mut self, global_arg_vec: &[Id]) { unimplemented!() }
    #[verifier::external_body] fn into_inner(self) -> ArgMatches { unimplemented!() }
    #[verifier::external_body] fn as_matches(&self) -> &ArgMatches { unimplemented!() }
}

impl Command {
    #[verifier::external_body]
    fn _build_self(&mut self, expand_help_tree: bool)
        ensures cmd_ignore_errors(final(self)) == cmd_ignore_errors(old(self)), *final(self) == built(old(self))
    { unimplemented!() }
    #[verifier::external_body]
    fn is_set(&self, s: AppSettings) -> (r: bool)
        ensures s is IgnoreErrors ==> r == cmd_ignore_errors(self)
    { unimplemented!() }
    #[verifier::external_body]
    fn get_used_global_args(&self, matches: &ArgMatcher, global_arg_vec: &mut Vec<Id>) { unimplemented!() }

    fn _do_parse(
        &mut self,
        raw_args: &mut RawArgs,
        args_cursor: ArgCursor,
    ) -> (res: ClapResult<ArgMatches>)
        ensures
            (res is Err) <==> (inner_is_err(&built(old(self))) && !(cmd_ignore_errors(old(self)) && inner_err_stderr(&built(old(self))))),
            res is Err ==> err_use_stderr(&res->Err_0) == inner_err_stderr(&built(old(self)))
    {
        // If there are global arguments, or settings we need to propagate them down to subcommands
        // before parsing in case we run into a subcommand
        self._build_self(false);

        let mut matcher = ArgMatcher::new(self);

        // do the real parsing
        let mut parser = Parser::new(self);
        if let Err(error) = parser.get_matches_with(&mut matcher, raw_args, args_cursor) {
            if self.is_set(AppSettings::IgnoreErrors) && error.use_stderr() {
            } else {
                return Err(error);
            }
        }

        let mut global_arg_vec = Default::default();
        self.get_used_global_args(&matcher, &mut global_arg_vec);

        matcher.propagate_globals(&global_arg_vec);

        Ok(matcher.into_inner())
    }
}
}
fn main() {}
