use vstd::prelude::*;
verus! {

// ---- assumed environment (X6) ----
#[verifier::external_body]
pub struct Arg { _p: () }
#[verifier::external_body]
pub struct StyledStr { _p: () }
#[verifier::external_body]
pub struct Str { _p: () }

pub uninterp spec fn arg_width(a: &Arg) -> nat;      // display_width(&arg.to_string())
pub uninterp spec fn arg_positional(a: &Arg) -> bool;
pub uninterp spec fn arg_has_long(a: &Arg) -> bool;
pub uninterp spec fn arg_has_short(a: &Arg) -> bool;
pub uninterp spec fn arg_takes_value(a: &Arg) -> bool;

impl Arg {
    #[verifier::external_body]
    fn is_positional(&self) -> (r: bool) ensures r == arg_positional(self) { unimplemented!() }
    #[verifier::external_body]
    fn get_long(&self) -> (r: Option<&str>) ensures r.is_some() == arg_has_long(self) { unimplemented!() }
    #[verifier::external_body]
    fn to_string(&self) -> (r: String) ensures spec_display_width(r@) == arg_width(self) { unimplemented!() }
}

pub uninterp spec fn spec_display_width(s: Seq<char>) -> nat;

#[verifier::external_body]
fn display_width(text: &str) -> (r: usize)
    ensures r as nat == spec_display_width(text@)
{ unimplemented!() }

const SHORT_SIZE: usize = 4;
const TAB_WIDTH: usize = 2;

pub struct HelpTemplate {
    use_long: bool,
    term_w: usize,
    next_line_help: bool,
}

pub open spec fn longest_filter_spec(a: &Arg) -> bool { arg_takes_value(a) || arg_has_long(a) || !arg_has_short(a) }

// what write_args' first loop establishes for every arg it later writes
pub open spec fn longest_ok(a: &Arg, longest: nat) -> bool {
    longest >= 2 && (longest_filter_spec(a) ==> longest >= arg_width(a) + (if arg_positional(a) { 0nat } else { 4nat })) && (!longest_filter_spec(a) ==> longest >= arg_width(a))
}

impl HelpTemplate {
    #[verifier::external_body]
    fn write_padding(&mut self, amount: usize) { unimplemented!() }

    fn align_to_about(&mut self, arg: &Arg, next_line_help: bool, longest: usize)
        requires
            longest_ok(arg, longest as nat),
            arg_width(arg) + 4 <= usize::MAX, longest + 8 <= usize::MAX,
            // domain fact for args outside longest_filter: short-only flag without value renders as "-c" (or "-c..." for Count)
            !longest_filter_spec(arg) ==> (arg_has_short(arg) && !arg_has_long(arg) && !arg_positional(arg) && arg_width(arg) <= 6),
    {
        let padding = if self.use_long || next_line_help {
            // long help prints messages on the next line so it doesn't need to align text
            0
        } else if !arg.is_positional() {
            let self_len = display_width(&arg.to_string()) + SHORT_SIZE;
            // Since we're writing spaces from the tab point we first need to know if we
            // had a long and short, or just short
            let padding = if arg.get_long().is_some() {
                // Only account 4 after the val
                TAB_WIDTH
            } else {
                // Only account for ', --' + 4 after the val
                TAB_WIDTH + 4
            };
            let spcs = longest + padding - self_len;

            spcs
        } else {
            let self_len = display_width(&arg.to_string());
            let padding = TAB_WIDTH;
            let spcs = longest + padding - self_len;

            spcs
        };

        self.write_padding(padding);
    }
}
}
fn main() {}
