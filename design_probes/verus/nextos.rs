use vstd::prelude::*;
use std::ffi::{OsStr, OsString};
verus! {
#[verifier::external_type_specification]
#[verifier::external_body]
pub struct ExOsString(OsString);
#[verifier::external_type_specification]
#[verifier::external_body]
pub struct ExOsStr(OsStr);

pub uninterp spec fn os_view(s: &OsStr) -> Seq<u8>;
pub uninterp spec fn oss_view(s: &OsString) -> Seq<u8>;

pub assume_specification<'a> [OsString::as_os_str] (s: &'a OsString) -> (r: &'a OsStr)
    ensures os_view(r) == oss_view(s);

pub struct RawArgs { items: Vec<OsString> }
pub struct ArgCursor { cursor: usize }

impl RawArgs {
    fn next_os(&self, cursor: &mut ArgCursor) -> (next: Option<&OsStr>)
        ensures
            old(cursor).cursor < self.items.len() ==> next.is_some() && os_view(next.unwrap()) == oss_view(&self.items[old(cursor).cursor as int]),
            old(cursor).cursor >= self.items.len() ==> next.is_none(),
    {
        let next = self.items.get(cursor.cursor).map(|s| s.as_os_str());
        cursor.cursor = cursor.cursor.saturating_add(1);
        next
    }
}
}
fn main() {}
