use vstd::prelude::*;
verus! {
// ---------- env ----------
#[verifier::external_body] pub struct Arg { _p: () }
#[verifier::external_body] pub struct OsStr2 { _p: () }
#[verifier::external_body] pub struct ParsedArg<'s> { _p: &'s () }
pub struct ValueRange { start_inclusive: usize, end_inclusive: usize }

pub uninterp spec fn arg_max(a: &Arg) -> usize;
pub uninterp spec fn arg_hyphen(a: &Arg) -> bool;

impl ValueRange {
    fn max_values(&self) -> (r: usize) ensures r == self.end_inclusive { self.end_inclusive }
}
impl Arg {
    #[verifier::external_body] fn get_num_args(&self) -> (r: Option<ValueRange>) ensures r.is_some(), r.unwrap().end_inclusive == arg_max(self) { unimplemented!() }
    #[verifier::external_body] fn is_allow_hyphen_values_set(&self) -> (r: bool) ensures r == arg_hyphen(self) { unimplemented!() }
}
impl OsStr2 {
    #[verifier::external_body] fn starts_with(&self, p: &str) -> bool { unimplemented!() }
}
impl<'s> ParsedArg<'s> {
    #[verifier::external_body] fn to_value_os(&self) -> &OsStr2 { unimplemented!() }
}

enum ParseState<'a> {
    ValueDone,
    Pos((usize, usize)),
    Opt((&'a Arg, usize)),
}

// clap_complete/src/engine/complete.rs — verbatim
fn parse_opt_value(opt: &Arg, count: usize) -> (r: ParseState<'_>)
    ensures count < arg_max(opt) ==> (r matches ParseState::Opt((o, c)) && c == count + 1),
            count >= arg_max(opt) ==> r is ValueDone,
{
    let range = opt.get_num_args().expect("built");
    let max = range.max_values();
    if count < max {
        ParseState::Opt((opt, count + 1))
    } else {
        ParseState::ValueDone
    }
}

fn opt_allows_hyphen(state: &ParseState<'_>, arg: &ParsedArg<'_>) -> (r: bool)
    ensures r ==> state is Opt
{
    let val = arg.to_value_os();
    if val.starts_with("-") {
        if let ParseState::Opt((opt, _)) = state {
            return opt.is_allow_hyphen_values_set();
        }
    }

    false
}
}
fn main() {}
