use vstd::prelude::*;
verus! {
fn count(v: &Vec<u8>, x: u8) -> (n: usize)
    ensures n == v@.filter(|e: u8| e == x).len()
{
    let mut n: usize = 0;
    for e in it: v
        invariant n == v@.subrange(0, it.index@).filter(|e: u8| e == x).len(), n <= it.index@, it.seq().len() == v@.len(), forall|j: int| 0 <= j < v@.len() ==> *it.seq()[j] == v@[j]
    {
        proof {
            let i = it.index@;
            assert(v@.subrange(0, i + 1) =~= v@.subrange(0, i).push(v@[i]));
            reveal(Seq::filter);
        }
        if *e == x { n = n + 1; }
    }
    proof { assert(v@.subrange(0, v@.len() as int) =~= v@); }
    n
}
}
fn main() {}
