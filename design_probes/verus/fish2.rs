use vstd::prelude::*;
verus! {

spec fn subst(s: Seq<char>, from: char, to: Seq<char>) -> Seq<char>
    decreases s.len()
{
    if s.len() == 0 { Seq::empty() }
    else { subst(s.drop_last(), from, to) + (if s.last() == from { to } else { seq![s.last()] }) }
}

// what fish::escape_string(s, false) returns (unit C17-fish part 1 proves r@ == fish_out(s@) on the real text)
spec fn fish_out(s: Seq<char>) -> Seq<char> {
    subst(subst(s, '\\', seq!['\\', '\\']), '\'', seq!['\\', '\''])
}

// fish single-quote automaton, run over the text placed between the two quotes.
// state: 0 = inside quotes, 1 = inside quotes after a backslash, 2 = quote closed early (bad)
spec fn step(st: int, c: char) -> int {
    if st == 2 { 2 }
    else if st == 1 { 0 }                 // \\ , \' and \x all stay inside the quotes
    else if c == '\\' { 1 }
    else if c == '\'' { 2 }
    else { 0 }
}

spec fn run(st: int, s: Seq<char>) -> int
    decreases s.len()
{
    if s.len() == 0 { st } else { step(run(st, s.drop_last()), s.last()) }
}

proof fn lemma_run_add(st: int, a: Seq<char>, b: Seq<char>)
    ensures run(st, a + b) == run(run(st, a), b)
    decreases b.len()
{
    if b.len() == 0 {
        assert(a + b =~= a);
    } else {
        assert((a + b).drop_last() =~= a + b.drop_last());
        lemma_run_add(st, a, b.drop_last());
    }
}

proof fn lemma_subst_add(a: Seq<char>, b: Seq<char>, from: char, to: Seq<char>)
    ensures subst(a + b, from, to) =~= subst(a, from, to) + subst(b, from, to)
    decreases b.len()
{
    if b.len() == 0 {
        assert(a + b =~= a);
    } else {
        assert((a + b).drop_last() =~= a + b.drop_last());
        lemma_subst_add(a, b.drop_last(), from, to);
    }
}

proof fn lemma_subst_one(c: char, from: char, to: Seq<char>)
    ensures subst(seq![c], from, to) =~= (if c == from { to } else { seq![c] })
{
    reveal_with_fuel(subst, 2);
    assert(seq![c].drop_last() =~= Seq::<char>::empty());
}

proof fn lemma_subst_two(c: char, d: char, from: char, to: Seq<char>)
    ensures subst(seq![c, d], from, to) =~= subst(seq![c], from, to) + subst(seq![d], from, to)
{
    assert(seq![c, d] =~= seq![c] + seq![d]);
    lemma_subst_add(seq![c], seq![d], from, to);
}

// image of one input character under both passes
proof fn lemma_image(c: char)
    ensures fish_out(seq![c]) =~= (if c == '\\' { seq!['\\', '\\'] } else if c == '\'' { seq!['\\', '\''] } else { seq![c] })
{
    lemma_subst_one(c, '\\', seq!['\\', '\\']);
    if c == '\\' {
        lemma_subst_two('\\', '\\', '\'', seq!['\\', '\'']);
        lemma_subst_one('\\', '\'', seq!['\\', '\'']);
    } else {
        lemma_subst_one(c, '\'', seq!['\\', '\'']);
    }
}

proof fn lemma_fish_out_push(s: Seq<char>, c: char)
    ensures fish_out(s.push(c)) =~= fish_out(s) + fish_out(seq![c])
{
    assert(s.push(c) =~= s + seq![c]);
    lemma_subst_add(s, seq![c], '\\', seq!['\\', '\\']);
    lemma_subst_add(subst(s, '\\', seq!['\\', '\\']), subst(seq![c], '\\', seq!['\\', '\\']), '\'', seq!['\\', '\'']);
}

// C17-fish part 2: for EVERY string, the escaped text stays inside the quotes and ends in state 0
proof fn lemma_fish_quote_safe(s: Seq<char>)
    ensures run(0, fish_out(s)) == 0
    decreases s.len()
{
    if s.len() == 0 {
        assert(fish_out(s) =~= Seq::<char>::empty());
    } else {
        let p = s.drop_last();
        let c = s.last();
        lemma_fish_quote_safe(p);
        assert(s =~= p.push(c));
        lemma_fish_out_push(p, c);
        lemma_image(c);
        lemma_run_add(0, fish_out(p), fish_out(seq![c]));
        let img = fish_out(seq![c]);
        reveal_with_fuel(run, 3);
        if c == '\\' || c == '\'' {
            assert(img.len() == 2);
            assert(img.drop_last() =~= seq![img[0]]);
            assert(seq![img[0]].drop_last() =~= Seq::<char>::empty());
        } else {
            assert(img.drop_last() =~= Seq::<char>::empty());
        }
    }
}
}
fn main() {}
