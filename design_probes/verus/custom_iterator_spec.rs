use vstd::prelude::*;
use vstd::std_specs::iter::*;
verus! {
pub struct It { pub i: usize, pub n: usize }
impl Iterator for It {
    type Item = usize;
    fn next(&mut self) -> Option<usize> { if self.i < self.n { let r = self.i; self.i = self.i + 1; Some(r) } else { None } }
}
impl IteratorSpecImpl for It {
    open spec fn obeys_prophetic_iter_laws(&self) -> bool { true }
    open spec fn remaining(&self) -> Seq<usize> {
        if self.i <= self.n { Seq::new((self.n - self.i) as nat, |j: int| (self.i + j) as usize) } else { Seq::empty() }
    }
    open spec fn decrease(&self) -> Option<nat> { Some(if self.i <= self.n { (self.n - self.i) as nat } else { 0 }) }
    open spec fn peek(&self, index: int) -> Option<usize> {
        if self.i <= self.n && 0 <= index < self.n - self.i { Some((self.i + index) as usize) } else { None }
    }
    open spec fn will_return_none(&self) -> bool { self.i >= self.n }
}

fn sum_it(n: usize) -> (s: usize)
    requires n < 1000
{
    let mut s: usize = 0;
    for x in it: (It { i: 0, n })
        invariant s <= it.index@ * 1000, it.seq().len() == n, forall|j: int| 0 <= j < n ==> it.seq()[j] == j
    {
        s = s + x;
    }
    s
}
}
fn main() {}
