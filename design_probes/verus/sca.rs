use vstd::prelude::*;
verus! {
// ---------- env ----------
#[verifier::external_body] #[derive(PartialEq, Eq)] pub struct Id { _p: () }
#[verifier::external_body] pub struct Arg { _p: () }
#[verifier::external_body] pub struct MatchedArg { _p: () }
#[verifier::external_body] pub struct ArgMatcher { _p: () }
#[verifier::external_body] pub struct Entry<'a> { _p: &'a () }
#[derive(Clone, Copy)]
pub enum ValueSource { DefaultValue, EnvVariable, CommandLine }

pub uninterp spec fn arg_id(a: &Arg) -> Id;
pub uninterp spec fn ma_source(m: &MatchedArg) -> Option<ValueSource>;
pub uninterp spec fn ma_groups(m: &MatchedArg) -> nat;
pub uninterp spec fn m_has(m: &ArgMatcher, id: Id) -> bool;
pub uninterp spec fn m_get(m: &ArgMatcher, id: Id) -> MatchedArg;
pub open spec fn rank(s: ValueSource) -> int { match s { ValueSource::DefaultValue => 0, ValueSource::EnvVariable => 1, ValueSource::CommandLine => 2 } }

impl Id { #[verifier::external_body] fn clone(&self) -> (r: Id) ensures r == *self { unimplemented!() } }
impl Arg { #[verifier::external_body] fn get_id(&self) -> (r: &Id) ensures *r == arg_id(self) { unimplemented!() } }
impl MatchedArg {
    #[verifier::external_body] fn new_arg(arg: &Arg) -> (r: MatchedArg) ensures ma_source(&r).is_none(), ma_groups(&r) == 0 { unimplemented!() }
    // link: discharged by unit C06-lattice (K∞)
    #[verifier::external_body] fn set_source(&mut self, source: ValueSource)
        ensures ma_groups(final(self)) == ma_groups(old(self)),
            ma_source(final(self)).is_some(),
            rank(ma_source(final(self)).unwrap()) == (if ma_source(old(self)).is_some() && rank(ma_source(old(self)).unwrap()) > rank(source) { rank(ma_source(old(self)).unwrap()) } else { rank(source) })
    { unimplemented!() }
    #[verifier::external_body] fn new_val_group(&mut self)
        ensures ma_groups(final(self)) == ma_groups(old(self)) + 1, ma_source(final(self)) == ma_source(old(self))
    { unimplemented!() }
}
impl<'a> Entry<'a> {
    #[verifier::external_body] fn or_insert(self, default: MatchedArg) -> &'a mut MatchedArg { unimplemented!() }
}
impl ArgMatcher {
    #[verifier::external_body] fn entry(&mut self, arg: Id) -> Entry<'_> { unimplemented!() }

    // arg_matcher.rs — verbatim minus debug! / debug_assert_eq! (X1, X1b)
    fn start_custom_arg(&mut self, arg: &Arg, source: ValueSource) {
        let id = arg.get_id().clone();
        let ma = self.entry(id).or_insert(MatchedArg::new_arg(arg));
        ma.set_source(source);
        ma.new_val_group();
    }
}
}
fn main() {}
