use vstd::prelude::*;
use std::io::SeekFrom;
use std::ffi::OsString;
verus! {

#[verifier::external_type_specification]
pub struct ExSeekFrom(SeekFrom);

#[verifier::external_type_specification]
#[verifier::external_body]
pub struct ExOsString(OsString);

pub struct RawArgs {
    items: Vec<OsString>,
}
pub struct ArgCursor {
    cursor: usize,
}

pub assume_specification [i64::saturating_add] (a: i64, b: i64) -> (r: i64)
    ensures r as int == clamp(a as int + b as int, i64::MIN as int, i64::MAX as int);

pub open spec fn clamp(x: int, lo: int, hi: int) -> int { if x < lo { lo } else if x > hi { hi } else { x } }

impl RawArgs {
    fn seek(&self, cursor: &mut ArgCursor, pos: SeekFrom)
        ensures
            final(cursor).cursor <= self.items.len(),
            match pos {
                SeekFrom::Start(p) => final(cursor).cursor as int == clamp(p as int, 0, self.items.len() as int),
                SeekFrom::End(p) => final(cursor).cursor as int == clamp(self.items.len() as int + p as int, 0, self.items.len() as int),
                SeekFrom::Current(p) => final(cursor).cursor as int == clamp(old(cursor).cursor as int + p as int, 0, self.items.len() as int),
            }
    {
        let pos = match pos {
            SeekFrom::Start(pos) => pos,
            SeekFrom::End(pos) => (self.items.len() as i64).saturating_add(pos).max(0) as u64,
            SeekFrom::Current(pos) => (cursor.cursor as i64).saturating_add(pos).max(0) as u64,
        };
        let pos = (pos as usize).min(self.items.len());
        cursor.cursor = pos;
    }
}
}
fn main() {}
