#![feature(pattern)]
#![verifier::allow(undeclared_external_trait)]
use vstd::prelude::*;
use core::str::pattern::Pattern;
verus! {

pub uninterp spec fn spec_replace<P>(s: Seq<char>, from: P, to: Seq<char>) -> Seq<char>;

pub assume_specification<P: Pattern> [str::replace::<P>] (s: &str, from: P, to: &str) -> (r: String)
    ensures r@ == spec_replace(s@, from, to@);

pub open spec fn subst(s: Seq<char>, from: char, to: Seq<char>) -> Seq<char>
    decreases s.len()
{
    if s.len() == 0 { Seq::empty() }
    else { subst(s.drop_last(), from, to) + (if s.last() == from { to } else { seq![s.last()] }) }
}

#[verifier::external_body]
pub broadcast proof fn axiom_replace_char(s: Seq<char>, from: char, to: Seq<char>)
    ensures #[trigger] spec_replace(s, from, to) == subst(s, from, to)
{}

fn escape_string(string: &str, escape_comma: bool) -> (r: String)
    ensures !escape_comma ==> r@ == subst(subst(string@, '\\', seq!['\\', '\\']), '\'', seq!['\\', '\''])
{
    broadcast use axiom_replace_char;
    proof { reveal_strlit("\\\\"); reveal_strlit("\\'"); reveal_strlit("\\,");
        assert("\\\\"@ =~= seq!['\\', '\\']); assert("\\'"@ =~= seq!['\\', '\'']); }
    let string = string.replace('\\', "\\\\").replace('\'', "\\'");
    if escape_comma {
        string.replace(',', "\\,")
    } else {
        string
    }
}
}
fn main() {}
