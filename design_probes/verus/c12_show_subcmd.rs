use vstd::prelude::*;
verus! {
// ---------- env ----------
#[verifier::external_body] pub struct Arg { _p: () }
#[verifier::external_body] pub struct Command { _p: () }
#[verifier::external_body] pub struct StyledStr { _p: () }
pub uninterp spec fn a_hide(a: &Arg) -> bool;
pub uninterp spec fn a_hide_long(a: &Arg) -> bool;
pub uninterp spec fn a_hide_short(a: &Arg) -> bool;
pub uninterp spec fn a_next_line(a: &Arg) -> bool;
pub uninterp spec fn a_takes_value(a: &Arg) -> bool;
pub uninterp spec fn a_has_long(a: &Arg) -> bool;
pub uninterp spec fn a_has_short(a: &Arg) -> bool;
pub uninterp spec fn c_hide(c: &Command) -> bool;
pub uninterp spec fn ss_width(s: &StyledStr) -> nat;
impl Arg {
    #[verifier::external_body] fn is_hide_set(&self) -> (r: bool) ensures r == a_hide(self) { unimplemented!() }
    #[verifier::external_body] fn is_hide_long_help_set(&self) -> (r: bool) ensures r == a_hide_long(self) { unimplemented!() }
    #[verifier::external_body] fn is_hide_short_help_set(&self) -> (r: bool) ensures r == a_hide_short(self) { unimplemented!() }
    #[verifier::external_body] fn is_next_line_help_set(&self) -> (r: bool) ensures r == a_next_line(self) { unimplemented!() }
    #[verifier::external_body] fn is_takes_value_set(&self) -> (r: bool) ensures r == a_takes_value(self) { unimplemented!() }
    #[verifier::external_body] fn get_long(&self) -> (r: Option<&str>) ensures r.is_some() == a_has_long(self) { unimplemented!() }
    #[verifier::external_body] fn get_short(&self) -> (r: Option<char>) ensures r.is_some() == a_has_short(self) { unimplemented!() }
}
impl Command { #[verifier::external_body] fn is_hide_set(&self) -> (r: bool) ensures r == c_hide(self) { unimplemented!() } }
impl StyledStr {
    #[verifier::external_body] fn push_str(&mut self, s: &str) { unimplemented!() }
    #[verifier::external_body] fn push_styled(&mut self, o: &StyledStr) { unimplemented!() }
    #[verifier::external_body] fn display_width(&self) -> (r: usize) ensures r as nat == ss_width(self) { unimplemented!() }
}
const TAB: &'static str = "  ";
const TAB_WIDTH: usize = 2;

pub struct HelpTemplate<'cmd, 'writer> {
    writer: &'writer mut StyledStr,
    cmd: &'cmd Command,
    next_line_help: bool,
    term_w: usize,
    use_long: bool,
}

// help_template.rs — verbatim (X1 applied)
fn should_show_arg(use_long: bool, arg: &Arg) -> (r: bool)
    ensures a_hide(arg) ==> !r,
        !a_hide(arg) ==> (r <==> ((use_long && !a_hide_long(arg)) || (!use_long && !a_hide_short(arg)) || a_next_line(arg))),
{
    if arg.is_hide_set() {
        return false;
    }
    (!arg.is_hide_long_help_set() && use_long)
        || (!arg.is_hide_short_help_set() && !use_long)
        || arg.is_next_line_help_set()
}

fn should_show_subcommand(subcommand: &Command) -> (r: bool) ensures r == !c_hide(subcommand) {
    !subcommand.is_hide_set()
}

fn longest_filter(arg: &Arg) -> (r: bool) ensures r == (a_takes_value(arg) || a_has_long(arg) || !a_has_short(arg)) {
    arg.is_takes_value_set() || arg.get_long().is_some() || arg.get_short().is_none()
}

impl<'cmd, 'writer> HelpTemplate<'cmd, 'writer> {
    #[verifier::external_body] fn write_padding(&mut self, amount: usize) { unimplemented!() }

    fn subcmd(&mut self, sc_str: StyledStr, next_line_help: bool, longest: usize)
        requires ss_width(&sc_str) <= longest, longest + 2 <= usize::MAX   // what write_subcommands' `max` establishes
    {
        self.writer.push_str(TAB);
        self.writer.push_styled(&sc_str);
        if !next_line_help {
            let width = sc_str.display_width();
            let padding = longest + TAB_WIDTH - width;
            self.write_padding(padding);
        }
    }
}
}
fn main() {}
