use vstd::prelude::*;
verus! {

// ---------- env ----------
#[verifier::external_body] pub struct OsStr2 { _p: () }
#[verifier::external_body] pub struct Str { _p: () }
#[verifier::external_body] pub struct Id { _p: () }
#[verifier::external_body] pub struct ValueRange { _p: () }

pub enum KeyType { Short(char), Long(OsStr2), Position(usize) }
pub struct Key { key: KeyType, index: usize }

pub struct Arg {
    index: Option<usize>,
    short: Option<char>,
    long: Option<Str>,
    short_aliases: Vec<(char, bool)>,
    aliases: Vec<(Str, bool)>,
}

impl Clone for Str {
    #[verifier::external_body] fn clone(&self) -> Str { unimplemented!() }
}
impl From<Str> for OsStr2 {
    #[verifier::external_body] fn from(s: Str) -> OsStr2 { unimplemented!() }
}
impl From<&Str> for OsStr2 {
    #[verifier::external_body] fn from(s: &Str) -> OsStr2 { unimplemented!() }
}

// mkeymap.rs — verbatim except the two `.into()` conversions noted below
fn append_keys(keys: &mut Vec<Key>, arg: &Arg, index: usize) {
    if let Some(pos_index) = arg.index {
        let key = KeyType::Position(pos_index);
        keys.push(Key { key, index });
    } else {
        if let Some(short) = arg.short {
            let key = KeyType::Short(short);
            keys.push(Key { key, index });
        }
        if let Some(long) = arg.long.clone() {
            let key = KeyType::Long(long.into());
            keys.push(Key { key, index });
        }

        for (short, _) in arg.short_aliases.iter() {
            let key = KeyType::Short(*short);
            keys.push(Key { key, index });
        }
        for (long, _) in arg.aliases.iter() {
            let key = KeyType::Long(long.into());
            keys.push(Key { key, index });
        }
    }
}
}
fn main() {}
