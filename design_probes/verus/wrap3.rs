use vstd::prelude::*;
use vstd::string::StringSliceAdditionalSpecFns;
verus! {

// ---------- prelude (assumed environment) ----------
pub uninterp spec fn is_ws(c: char) -> bool;

pub open spec fn all_ws(s: Seq<char>) -> bool { forall|i: int| 0 <= i < s.len() ==> is_ws(#[trigger] s[i]) }

pub open spec fn keep(c: char) -> bool { !is_ws(c) }

pub open spec fn nonws(s: Seq<char>) -> Seq<char> { s.filter(|c: char| keep(c)) }

#[verifier::external_body]
pub proof fn axiom_newline_ws()
    ensures is_ws('\n')
{}

#[verifier::external_body]
pub proof fn axiom_str_len_fits(s: &str)
    ensures s.spec_bytes().len() <= usize::MAX
{}

pub uninterp spec fn spec_display_width(s: Seq<char>) -> nat;

#[verifier::external_body]
fn display_width(text: &str) -> (r: usize)
    ensures r as nat == spec_display_width(text@)
{ unimplemented!() }

pub uninterp spec fn spec_trim_end(s: Seq<char>) -> Seq<char>;

pub assume_specification<'a> [str::trim_end] (s: &'a str) -> (r: &'a str)
    ensures r@.is_prefix_of(s@), all_ws(s@.subrange(r@.len() as int, s@.len() as int)),
        r.spec_bytes().len() <= s.spec_bytes().len() <= usize::MAX,
        r@ == spec_trim_end(s@);

pub assume_specification<'a> [str::trim] (s: &'a str) -> (r: &'a str)
    ensures r@.len() == 0 ==> all_ws(s@);

// ---------- spec ----------
pub open spec fn flat(s: Seq<&str>) -> Seq<char>
    decreases s.len()
{
    if s.len() == 0 { Seq::empty() } else { flat(s.drop_last()) + s.last()@ }
}

pub proof fn lemma_flat_push(s: Seq<&str>, x: &str)
    ensures flat(s.push(x)) =~= flat(s) + x@
{
    assert(s.push(x).drop_last() =~= s);
}

pub proof fn lemma_nonws_add(a: Seq<char>, b: Seq<char>)
    ensures nonws(a + b) =~= nonws(a) + nonws(b)
{
    Seq::filter_distributes_over_add(a, b, |c: char| keep(c));
}

pub proof fn lemma_nonws_all_ws(a: Seq<char>)
    requires all_ws(a)
    ensures nonws(a) =~= Seq::<char>::empty()
    decreases a.len()
{
    reveal(Seq::filter);
    if a.len() > 0 {
        lemma_nonws_all_ws(a.drop_last());
    }
}

pub proof fn lemma_nonws_trim(r: Seq<char>, s: Seq<char>)
    requires r.is_prefix_of(s), all_ws(s.subrange(r.len() as int, s.len() as int))
    ensures nonws(r) =~= nonws(s)
{
    let tail = s.subrange(r.len() as int, s.len() as int);
    assert(s =~= r + tail);
    lemma_nonws_add(r, tail);
    lemma_nonws_all_ws(tail);
}

pub open spec fn each_ws(s: Seq<&str>) -> bool { forall|j: int| 0 <= j < s.len() ==> all_ws(#[trigger] s[j]@) }

pub proof fn lemma_flat_add(a: Seq<&str>, b: Seq<&str>)
    ensures flat(a + b) =~= flat(a) + flat(b)
    decreases b.len()
{
    if b.len() == 0 {
        assert(a + b =~= a);
    } else {
        lemma_flat_add(a, b.drop_last());
        assert((a + b).drop_last() =~= a + b.drop_last());
        assert((a + b).last() == b.last());
    }
}

pub proof fn lemma_flat_each_ws(b: Seq<&str>)
    requires each_ws(b)
    ensures nonws(flat(b)) =~= Seq::<char>::empty()
    decreases b.len()
{
    if b.len() > 0 {
        lemma_flat_each_ws(b.drop_last());
        lemma_nonws_add(flat(b.drop_last()), b.last()@);
        lemma_nonws_all_ws(b.last()@);
    } else {
        lemma_nonws_all_ws(Seq::<char>::empty());
    }
}

pub proof fn lemma_step_plain(done: Seq<&str>, odone: Seq<&str>, w: &str)
    requires nonws(flat(done)) =~= nonws(flat(odone))
    ensures nonws(flat(done.push(w))) =~= nonws(flat(odone.push(w)))
{
    lemma_flat_push(done, w);
    lemma_flat_push(odone, w);
    lemma_nonws_add(flat(done), w@);
    lemma_nonws_add(flat(odone), w@);
}

pub proof fn lemma_step_break(pm: Seq<&str>, prev: &str, t: &str, ins: Seq<&str>, odone: Seq<&str>, w: &str)
    requires
        nonws(flat(pm.push(prev))) =~= nonws(flat(odone)),
        t@.is_prefix_of(prev@),
        all_ws(prev@.subrange(t@.len() as int, prev@.len() as int)),
        each_ws(ins),
    ensures nonws(flat((pm.push(t) + ins).push(w))) =~= nonws(flat(odone.push(w)))
{
    lemma_flat_push(pm, prev);
    lemma_flat_push(pm, t);
    lemma_nonws_add(flat(pm), prev@);
    lemma_nonws_add(flat(pm), t@);
    lemma_nonws_trim(t@, prev@);
    lemma_flat_add(pm.push(t), ins);
    lemma_nonws_add(flat(pm.push(t)), flat(ins));
    lemma_flat_each_ws(ins);
    assert(nonws(flat(pm.push(t) + ins)) =~= nonws(flat(odone)));
    lemma_step_plain(pm.push(t) + ins, odone, w);
}

pub open spec fn cost(w: &str) -> nat { spec_display_width(spec_trim_end(w@)) + w.spec_bytes().len() }

pub open spec fn sum_cost(s: Seq<&str>) -> nat
    decreases s.len()
{
    if s.len() == 0 { 0 } else { sum_cost(s.drop_last()) + cost(s.last()) }
}

pub proof fn lemma_sum_cost_prefix(s: Seq<&str>, k: int)
    requires 0 <= k < s.len()
    ensures sum_cost(s.subrange(0, k + 1)) == sum_cost(s.subrange(0, k)) + cost(s[k]),
            sum_cost(s.subrange(0, k + 1)) <= sum_cost(s),
    decreases s.len() - k
{
    assert(s.subrange(0, k + 1).drop_last() =~= s.subrange(0, k));
    if k + 1 < s.len() {
        lemma_sum_cost_prefix(s, k + 1);
    } else {
        assert(s.subrange(0, k + 1) =~= s);
    }
}

pub open spec fn carry_len(c: Option<&str>) -> nat {
    match c { Some(x) => x.spec_bytes().len(), None => 0 }
}

pub struct LineWrapper<'w> {
    hard_width: usize,
    line_width: usize,
    carryover: Option<&'w str>,
}

pub open spec fn carry_ok(c: Option<&str>) -> bool {
    match c { Some(x) => all_ws(x@), None => true }
}

impl<'w> LineWrapper<'w> {
    #[verifier::rlimit(60)]
    fn wrap(&mut self, mut words: Vec<&'w str>) -> (res: Vec<&'w str>)
        requires carry_ok(old(self).carryover),
            3 * words.len() <= usize::MAX,
            old(self).line_width + carry_len(old(self).carryover) + (if words.len() > 0 { words@[0].spec_bytes().len() } else { 0 }) + sum_cost(words@) <= usize::MAX,
        ensures nonws(flat(res@)) =~= nonws(flat(words@)),
    {
        let ghost orig = words@;
        if self.carryover.is_none() {
            if let Some(word) = words.first() {
                if word.trim().is_empty() {
                    self.carryover = Some(*word);
                } else {
                    self.carryover = Some("");
                }
            }
        }

        let mut i = 0;
        let ghost mut k: int = 0;
        let ghost lw0 = old(self).line_width as nat;
        let ghost cl = carry_len(self.carryover);
        proof { reveal_strlit(""); reveal_strlit("\n"); axiom_newline_ws(); }
        while i < words.len()
            invariant
                0 <= i <= words.len(),
                0 <= k <= orig.len(),
                words.len() - i == orig.len() - k,
                words.len() + 2 * (orig.len() - k) <= 3 * orig.len() <= usize::MAX,
                words@.subrange(i as int, words.len() as int) =~= orig.subrange(k, orig.len() as int),
                nonws(flat(words@.subrange(0, i as int))) =~= nonws(flat(orig.subrange(0, k))),
                carry_ok(self.carryover),
                cl == carry_len(self.carryover),
                self.line_width as nat <= lw0 + cl + sum_cost(orig.subrange(0, k)),
                lw0 + cl + sum_cost(orig) <= usize::MAX,
                is_ws('\n'), "\n"@ =~= seq!['\n'],
            decreases words.len() - i,
        {
            let ghost w0 = words@;
            let ghost i0 = i as int;
            proof {
                assert(words@.subrange(i as int, words.len() as int)[0] == orig.subrange(k, orig.len() as int)[0]);
                assert(w0[i0] == orig[k]);
                lemma_sum_cost_prefix(orig, k);
            }
            let word = &words[i];
            let trimmed = word.trim_end();
            let word_width = display_width(trimmed);
            let trimmed_delta = word.len() - trimmed.len();
            if i != 0 && self.hard_width < self.line_width + word_width {
                if 0 < i {
                    let last = i - 1;
                    let trimmed = words[last].trim_end();
                    words[last] = trimmed;
                }

                self.line_width = 0;
                words.insert(i, "\n");
                i += 1;
                if let Some(carryover) = self.carryover {
                    words.insert(i, carryover);
                    self.line_width += carryover.len();
                    i += 1;
                }
            }
            self.line_width += word_width + trimmed_delta;

            i += 1;
            proof {
                let p0 = w0.subrange(0, i0);
                let o0 = orig.subrange(0, k);
                assert(orig.subrange(0, k + 1) =~= o0.push(orig[k]));
                assert(w0.subrange(i0 + 1, w0.len() as int) =~= orig.subrange(k + 1, orig.len() as int)) by {
                    assert(w0.subrange(i0 + 1, w0.len() as int) =~= w0.subrange(i0, w0.len() as int).subrange(1, w0.len() - i0));
                    assert(orig.subrange(k + 1, orig.len() as int) =~= orig.subrange(k, orig.len() as int).subrange(1, orig.len() - k));
                }
                if words@.len() == w0.len() {
                    assert(words@ =~= w0);
                    assert(words@.subrange(0, i as int) =~= p0.push(w0[i0]));
                    lemma_step_plain(p0, o0, w0[i0]);
                } else {
                    let t = words@[i0 - 1];
                    let pm = w0.subrange(0, i0 - 1);
                    assert(p0 =~= pm.push(w0[i0 - 1]));
                    if words@.len() == w0.len() + 2 {
                        let ins = seq![words@[i0], words@[i0 + 1]];
                        assert(words@.subrange(0, i as int) =~= (pm.push(t) + ins).push(w0[i0]));
                        assert(words@.subrange(i as int, words.len() as int) =~= w0.subrange(i0 + 1, w0.len() as int));
                        lemma_step_break(pm, w0[i0 - 1], t, ins, o0, w0[i0]);
                    } else {
                        let ins = seq![words@[i0]];
                        assert(words@.subrange(0, i as int) =~= (pm.push(t) + ins).push(w0[i0]));
                        assert(words@.subrange(i as int, words.len() as int) =~= w0.subrange(i0 + 1, w0.len() as int));
                        lemma_step_break(pm, w0[i0 - 1], t, ins, o0, w0[i0]);
                    }
                }
                k = k + 1;
            }
        }
        proof {
            assert(words@.subrange(0, i as int) =~= words@);
            assert(orig.subrange(0, k) =~= orig);
        }
        words
    }
}
}
fn main() {}
