use vstd::prelude::*;
use std::cell::Cell;
verus! {
// ---------- env ----------
#[verifier::external_body] pub struct ArgMatches { _p: () }
#[verifier::external_body] pub struct ArgMatcher { _p: () }
#[verifier::external_body] pub struct ClapError { _p: () }
#[verifier::external_body] pub struct RawArgs { _p: () }
#[verifier::external_body] pub struct ArgCursor { _p: () }
#[verifier::external_body] pub struct Command { _p: () }
pub type ClapResult<T> = Result<T, ClapError>;
pub struct SubCommand { name: String, matches: ArgMatches }

#[verifier::external_body]
#[verifier::reject_recursive_types(T)]
pub struct MyCell<T> { c: Cell<T> }
impl MyCell<usize> {
    #[verifier::external_body] fn get(&self) -> usize { unimplemented!() }
    #[verifier::external_body] fn set(&self, v: usize) { unimplemented!() }
}

pub uninterp spec fn cmd_ignore_errors(c: &Command) -> bool;
pub uninterp spec fn cmd_has_sub(c: &Command, name: Seq<char>) -> bool;

impl Command {
    #[verifier::external_body] fn is_ignore_errors_set(&self) -> (r: bool) ensures r == cmd_ignore_errors(self) { unimplemented!() }
    #[verifier::external_body] fn _build_subcommand(&mut self, name: &str) -> (r: Option<&mut Command>)
        ensures r.is_some() == cmd_has_sub(old(self), name@) { unimplemented!() }
    #[verifier::external_body] fn get_name(&self) -> &str { unimplemented!() }
}
impl ArgMatcher {
    #[verifier::external_body] fn new(_cmd: &Command) -> Self { unimplemented!() }
    #[verifier::external_body] fn subcommand(&mut self, sc: SubCommand) { unimplemented!() }
    #[verifier::external_body] fn into_inner(self) -> ArgMatches { unimplemented!() }
}

pub struct Parser<'cmd> {
    cmd: &'cmd mut Command,
    cur_idx: MyCell<usize>,
    flag_subcmd_at: Option<usize>,
    flag_subcmd_skip: usize,
}

pub uninterp spec fn inner_result(sc: &Command) -> ClapResult<()>;

impl<'cmd> Parser<'cmd> {
    #[verifier::external_body] fn new(cmd: &'cmd mut Command) -> Self { unimplemented!() }
    #[verifier::external_body] fn get_matches_with(&mut self, matcher: &mut ArgMatcher, raw_args: &mut RawArgs, args_cursor: ArgCursor) -> ClapResult<()> { unimplemented!() }

    fn parse_subcommand(
        &mut self,
        sc_name: &str,
        matcher: &mut ArgMatcher,
        raw_args: &mut RawArgs,
        args_cursor: ArgCursor,
        keep_state: bool,
    ) -> (res: ClapResult<()>)
        ensures cmd_ignore_errors(old(self).cmd) ==> res is Ok
    {
        let partial_parsing_enabled = self.cmd.is_ignore_errors_set();

        if let Some(sc) = self.cmd._build_subcommand(sc_name) {
            let mut sc_matcher = ArgMatcher::new(sc);

            {
                let mut p = Parser::new(sc);
                // HACK: maintain indexes between parsers
                // FlagSubCommand short arg needs to revisit the current short args, but skip the subcommand itself
                if keep_state {
                    p.cur_idx.set(self.cur_idx.get());
                    p.flag_subcmd_at = self.flag_subcmd_at;
                    p.flag_subcmd_skip = self.flag_subcmd_skip;
                }
                if let Err(error) = p.get_matches_with(&mut sc_matcher, raw_args, args_cursor) {
                    if partial_parsing_enabled {
                    } else {
                        return Err(error);
                    }
                }
            }
            matcher.subcommand(SubCommand {
                name: sc.get_name().to_owned(),
                matches: sc_matcher.into_inner(),
            });
        }
        Ok(())
    }
}
}
fn main() {}
