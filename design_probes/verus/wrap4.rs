use vstd::prelude::*;
use vstd::string::StringSliceAdditionalSpecFns;
verus! {

// ---------- prelude (assumed environment) ----------
pub uninterp spec fn is_ws(c: char) -> bool;

pub open spec fn all_ws(s: Seq<char>) -> bool { forall|i: int| 0 <= i < s.len() ==> is_ws(#[trigger] s[i]) }

pub open spec fn keep(c: char) -> bool { !is_ws(c) }

pub open spec fn nonws(s: Seq<char>) -> Seq<char> { s.filter(|c: char| keep(c)) }

#[verifier::external_body]
pub proof fn axiom_newline_ws()
    ensures is_ws('\n')
{}

#[verifier::external_body]
pub proof fn axiom_str_len_fits(s: &str)
    ensures s.spec_bytes().len() <= usize::MAX
{}

pub uninterp spec fn spec_display_width(s: Seq<char>) -> nat;

#[verifier::external_body]
fn display_width(text: &str) -> (r: usize)
    ensures r as nat == spec_display_width(text@), spec_display_width(Seq::<char>::empty()) == 0
{ unimplemented!() }

pub uninterp spec fn spec_trim_end(s: Seq<char>) -> Seq<char>;

pub assume_specification<'a> [str::trim_end] (s: &'a str) -> (r: &'a str)
    ensures r@.is_prefix_of(s@), all_ws(s@.subrange(r@.len() as int, s@.len() as int)),
        r.spec_bytes().len() <= s.spec_bytes().len() <= usize::MAX,
        r@ == spec_trim_end(s@),
        spec_trim_end(spec_trim_end(s@)) == spec_trim_end(s@),
        all_ws(s@) ==> spec_trim_end(s@) =~= Seq::<char>::empty(),
        r@.len() > 0 ==> !is_ws(r@.last());

pub assume_specification<'a> [str::trim] (s: &'a str) -> (r: &'a str)
    ensures r@.len() == 0 ==> all_ws(s@);

// ---------- spec ----------
pub open spec fn flat(s: Seq<&str>) -> Seq<char>
    decreases s.len()
{
    if s.len() == 0 { Seq::empty() } else { flat(s.drop_last()) + s.last()@ }
}

pub proof fn lemma_flat_push(s: Seq<&str>, x: &str)
    ensures flat(s.push(x)) =~= flat(s) + x@
{
    assert(s.push(x).drop_last() =~= s);
}

pub proof fn lemma_nonws_add(a: Seq<char>, b: Seq<char>)
    ensures nonws(a + b) =~= nonws(a) + nonws(b)
{
    Seq::filter_distributes_over_add(a, b, |c: char| keep(c));
}

pub proof fn lemma_nonws_all_ws(a: Seq<char>)
    requires all_ws(a)
    ensures nonws(a) =~= Seq::<char>::empty()
    decreases a.len()
{
    reveal(Seq::filter);
    if a.len() > 0 {
        lemma_nonws_all_ws(a.drop_last());
    }
}

pub proof fn lemma_nonws_trim(r: Seq<char>, s: Seq<char>)
    requires r.is_prefix_of(s), all_ws(s.subrange(r.len() as int, s.len() as int))
    ensures nonws(r) =~= nonws(s)
{
    let tail = s.subrange(r.len() as int, s.len() as int);
    assert(s =~= r + tail);
    lemma_nonws_add(r, tail);
    lemma_nonws_all_ws(tail);
}

pub open spec fn each_ws(s: Seq<&str>) -> bool { forall|j: int| 0 <= j < s.len() ==> all_ws(#[trigger] s[j]@) }

pub proof fn lemma_flat_add(a: Seq<&str>, b: Seq<&str>)
    ensures flat(a + b) =~= flat(a) + flat(b)
    decreases b.len()
{
    if b.len() == 0 {
        assert(a + b =~= a);
    } else {
        lemma_flat_add(a, b.drop_last());
        assert((a + b).drop_last() =~= a + b.drop_last());
        assert((a + b).last() == b.last());
    }
}

pub proof fn lemma_flat_each_ws(b: Seq<&str>)
    requires each_ws(b)
    ensures nonws(flat(b)) =~= Seq::<char>::empty()
    decreases b.len()
{
    if b.len() > 0 {
        lemma_flat_each_ws(b.drop_last());
        lemma_nonws_add(flat(b.drop_last()), b.last()@);
        lemma_nonws_all_ws(b.last()@);
    } else {
        lemma_nonws_all_ws(Seq::<char>::empty());
    }
}

pub proof fn lemma_step_plain(done: Seq<&str>, odone: Seq<&str>, w: &str)
    requires nonws(flat(done)) =~= nonws(flat(odone))
    ensures nonws(flat(done.push(w))) =~= nonws(flat(odone.push(w)))
{
    lemma_flat_push(done, w);
    lemma_flat_push(odone, w);
    lemma_nonws_add(flat(done), w@);
    lemma_nonws_add(flat(odone), w@);
}

pub proof fn lemma_step_break(pm: Seq<&str>, prev: &str, t: &str, ins: Seq<&str>, odone: Seq<&str>, w: &str)
    requires
        nonws(flat(pm.push(prev))) =~= nonws(flat(odone)),
        t@.is_prefix_of(prev@),
        all_ws(prev@.subrange(t@.len() as int, prev@.len() as int)),
        each_ws(ins),
    ensures nonws(flat((pm.push(t) + ins).push(w))) =~= nonws(flat(odone.push(w)))
{
    lemma_flat_push(pm, prev);
    lemma_flat_push(pm, t);
    lemma_nonws_add(flat(pm), prev@);
    lemma_nonws_add(flat(pm), t@);
    lemma_nonws_trim(t@, prev@);
    lemma_flat_add(pm.push(t), ins);
    lemma_nonws_add(flat(pm.push(t)), flat(ins));
    lemma_flat_each_ws(ins);
    assert(nonws(flat(pm.push(t) + ins)) =~= nonws(flat(odone)));
    lemma_step_plain(pm.push(t) + ins, odone, w);
}

pub open spec fn cost(w: &str) -> nat { spec_display_width(spec_trim_end(w@)) + w.spec_bytes().len() }

pub open spec fn sum_cost(s: Seq<&str>) -> nat
    decreases s.len()
{
    if s.len() == 0 { 0 } else { sum_cost(s.drop_last()) + cost(s.last()) }
}

pub proof fn lemma_sum_cost_prefix(s: Seq<&str>, k: int)
    requires 0 <= k < s.len()
    ensures sum_cost(s.subrange(0, k + 1)) == sum_cost(s.subrange(0, k)) + cost(s[k]),
            sum_cost(s.subrange(0, k + 1)) <= sum_cost(s),
    decreases s.len() - k
{
    assert(s.subrange(0, k + 1).drop_last() =~= s.subrange(0, k));
    if k + 1 < s.len() {
        lemma_sum_cost_prefix(s, k + 1);
    } else {
        assert(s.subrange(0, k + 1) =~= s);
    }
}

pub open spec fn carry_len(c: Option<&str>) -> nat {
    match c { Some(x) => x.spec_bytes().len(), None => 0 }
}


// ---------- width model (C20-width) ----------
pub open spec fn enc(v: Seq<char>) -> Seq<u8> { vstd::utf8::encode_utf8(v) }
pub open spec fn tw(w: &str) -> nat { spec_display_width(spec_trim_end(w@)) }
pub open spec fn td(w: &str) -> nat { (enc(w@).len() - enc(spec_trim_end(w@)).len()) as nat }
pub open spec fn is_nl(w: &str) -> bool { w@ =~= seq!['\n'] }
pub open spec fn content(w: &str) -> nat { if all_ws(w@) { 0 } else { 1 } }

pub struct LS {
    pub before: nat,     // accumulated width of the current line without its last element
    pub last_tw: nat,    // trimmed display width of the last element of the current line
    pub last_td: nat,    // trailing-whitespace bytes of the last element
    pub ncontent: nat,   // elements of the current line that are not whitespace-only
    pub ok: bool,        // every finished line so far: within the width, or at most one content word
}

pub open spec fn ls0() -> LS { LS { before: 0, last_tw: 0, last_td: 0, ncontent: 0, ok: true } }

pub open spec fn cur_ok(st: LS, hard: nat) -> bool { st.ncontent <= 1 || st.before + st.last_tw <= hard }

pub open spec fn lw(st: LS) -> nat { st.before + st.last_tw + st.last_td }

pub open spec fn step(st: LS, e: &str, hard: nat) -> LS {
    if is_nl(e) {
        LS { before: 0, last_tw: 0, last_td: 0, ncontent: 0, ok: st.ok && cur_ok(st, hard) }
    } else {
        LS { before: lw(st), last_tw: tw(e), last_td: td(e), ncontent: st.ncontent + content(e), ok: st.ok }
    }
}

pub open spec fn scan(s: Seq<&str>, hard: nat) -> LS
    decreases s.len()
{
    if s.len() == 0 { ls0() } else { step(scan(s.drop_last(), hard), s.last(), hard) }
}

pub proof fn lemma_scan_push(s: Seq<&str>, e: &str, hard: nat)
    ensures scan(s.push(e), hard) == step(scan(s, hard), e, hard)
{
    assert(s.push(e).drop_last() =~= s);
}


pub proof fn lemma_content_trim(t: Seq<char>, p: Seq<char>)
    requires t.is_prefix_of(p), all_ws(p.subrange(t.len() as int, p.len() as int))
    ensures all_ws(t) == all_ws(p)
{
    if all_ws(t) {
        assert forall|i: int| 0 <= i < p.len() implies is_ws(#[trigger] p[i]) by {
            if i < t.len() { assert(p[i] == t[i]); } else { assert(p.subrange(t.len() as int, p.len() as int)[i - t.len()] == p[i]); }
        }
    }
    if all_ws(p) {
        assert forall|i: int| 0 <= i < t.len() implies is_ws(#[trigger] t[i]) by { assert(t[i] == p[i]); }
    }
}

#[verifier::external_body]
pub proof fn axiom_trim_end_all_ws(v: Seq<char>)
    requires all_ws(v)
    ensures spec_trim_end(v) =~= Seq::<char>::empty()
{}

#[verifier::external_body]
pub proof fn axiom_enc_empty()
    ensures enc(Seq::<char>::empty()).len() == 0
{}

#[verifier::external_body]
pub proof fn axiom_bytes_enc(w: &str)
    ensures w.spec_bytes() == enc(w@), enc(w@).len() <= usize::MAX
{}


pub proof fn lemma_w_plain(p: Seq<&str>, w: &str, h: nat, lw_old: nat, ww: nat, delta: nat)
    requires
        !is_nl(w), ww == tw(w), delta == td(w),
        lw_old == lw(scan(p, h)), scan(p, h).ok, cur_ok(scan(p, h), h),
        p.len() == 0 || lw_old + ww <= h,
    ensures
        lw(scan(p.push(w), h)) == lw_old + ww + delta,
        scan(p.push(w), h).ok,
        cur_ok(scan(p.push(w), h), h),
{
    lemma_scan_push(p, w, h);
    if p.len() == 0 { assert(scan(p, h) == ls0()); }
}

pub open spec fn carry_seq(c: Option<&str>) -> Seq<&str> {
    match c { Some(x) => seq![x], None => Seq::<&str>::empty() }
}

pub proof fn lemma_w_break(pm: Seq<&str>, prev: &str, t: &str, nl: &str, c: Option<&str>, w: &str, h: nat, ww: nat, delta: nat)
    requires
        scan(pm.push(prev), h).ok, cur_ok(scan(pm.push(prev), h), h),
        !is_nl(prev),
        t@ == spec_trim_end(prev@), spec_trim_end(t@) == t@,
        t@.is_prefix_of(prev@), all_ws(prev@.subrange(t@.len() as int, prev@.len() as int)),
        !is_nl(t), is_nl(nl), !is_nl(w), ww == tw(w), delta == td(w),
        match c { Some(x) => all_ws(x@) && !is_nl(x) && spec_trim_end(x@) =~= Seq::<char>::empty(), None => true },
        spec_display_width(Seq::<char>::empty()) == 0,
        enc(Seq::<char>::empty()).len() == 0,
    ensures
        ({
            let p2 = pm.push(t).push(nl);
            let p3 = match c { Some(x) => p2.push(x), None => p2 };
            let clen = match c { Some(x) => enc(x@).len(), None => 0 };
            lw(scan(p3.push(w), h)) == clen + ww + delta
            && scan(p3.push(w), h).ok
            && cur_ok(scan(p3.push(w), h), h)
        }),
{
    lemma_scan_push(pm, prev, h);
    lemma_scan_push(pm, t, h);
    lemma_content_trim(t@, prev@);
    lemma_scan_push(pm.push(t), nl, h);
    let p2 = pm.push(t).push(nl);
    match c {
        Some(x) => {
            lemma_scan_push(p2, x, h);
            lemma_scan_push(p2.push(x), w, h);
        }
        None => {
            lemma_scan_push(p2, w, h);
        }
    }
}

pub struct LineWrapper<'w> {
    hard_width: usize,
    line_width: usize,
    carryover: Option<&'w str>,
}

pub open spec fn carry_ok(c: Option<&str>) -> bool {
    match c { Some(x) => all_ws(x@), None => true }
}

impl<'w> LineWrapper<'w> {
    #[verifier::rlimit(150)]
    fn wrap(&mut self, mut words: Vec<&'w str>) -> (res: Vec<&'w str>)
        requires carry_ok(old(self).carryover),
            3 * words.len() <= usize::MAX,
            old(self).line_width + carry_len(old(self).carryover) + (if words.len() > 0 { words@[0].spec_bytes().len() } else { 0 }) + sum_cost(words@) <= usize::MAX,
            // width clause preconditions: fresh line, no element is itself a line break
            old(self).line_width == 0,
            match old(self).carryover { Some(c) => !is_nl(c) && spec_trim_end(c@) =~= Seq::<char>::empty(), None => true },
            forall|j: int| 0 <= j < words.len() ==> !is_nl(#[trigger] words@[j]),
        ensures nonws(flat(res@)) =~= nonws(flat(words@)),
            final(self).hard_width == old(self).hard_width,
            scan(res@, old(self).hard_width as nat).ok,
            cur_ok(scan(res@, old(self).hard_width as nat), old(self).hard_width as nat),
    {
        let ghost orig = words@;
        if self.carryover.is_none() {
            if let Some(word) = words.first() {
                if word.trim().is_empty() {
                    self.carryover = Some(*word);
                } else {
                    self.carryover = Some("");
                }
            }
        }

        let mut i = 0;
        let ghost mut k: int = 0;
        let ghost lw0 = old(self).line_width as nat;
        let ghost cl = carry_len(self.carryover);
        proof { reveal_strlit(""); reveal_strlit("\n"); axiom_newline_ws();
            assert(words@.subrange(0, 0) =~= Seq::<&str>::empty());
            match self.carryover { Some(c) => { if all_ws(c@) { axiom_trim_end_all_ws(c@); } }, None => {} }
        }
        while i < words.len()
            invariant
                0 <= i <= words.len(),
                0 <= k <= orig.len(),
                words.len() - i == orig.len() - k,
                words.len() + 2 * (orig.len() - k) <= 3 * orig.len() <= usize::MAX,
                words@.subrange(i as int, words.len() as int) =~= orig.subrange(k, orig.len() as int),
                nonws(flat(words@.subrange(0, i as int))) =~= nonws(flat(orig.subrange(0, k))),
                carry_ok(self.carryover),
                cl == carry_len(self.carryover),
                self.line_width as nat <= lw0 + cl + sum_cost(orig.subrange(0, k)),
                lw0 + cl + sum_cost(orig) <= usize::MAX,
                is_ws('\n'), "\n"@ =~= seq!['\n'],
                // ---- width clause ----
                self.hard_width == old(self).hard_width,
                forall|j: int| 0 <= j < orig.len() ==> !is_nl(#[trigger] orig[j]),
                match self.carryover { Some(c) => !is_nl(c) && spec_trim_end(c@) =~= Seq::<char>::empty(), None => true },
                i > 0 ==> k > 0 && words@[i - 1] == orig[k - 1],
                self.line_width as nat == lw(scan(words@.subrange(0, i as int), self.hard_width as nat)),
                scan(words@.subrange(0, i as int), self.hard_width as nat).ok,
                cur_ok(scan(words@.subrange(0, i as int), self.hard_width as nat), self.hard_width as nat),
            decreases words.len() - i,
        {
            let ghost w0 = words@;
            let ghost i0 = i as int;
            let ghost lw_in = self.line_width as nat;
            proof {
                assert(words@.subrange(i as int, words.len() as int)[0] == orig.subrange(k, orig.len() as int)[0]);
                assert(w0[i0] == orig[k]);
                lemma_sum_cost_prefix(orig, k);
            }
            let word = &words[i];
            let trimmed = word.trim_end();
            let word_width = display_width(trimmed);
            let trimmed_delta = word.len() - trimmed.len();
            if i != 0 && self.hard_width < self.line_width + word_width {
                if 0 < i {
                    let last = i - 1;
                    let trimmed = words[last].trim_end();
                    words[last] = trimmed;
                }

                self.line_width = 0;
                words.insert(i, "\n");
                i += 1;
                if let Some(carryover) = self.carryover {
                    words.insert(i, carryover);
                    self.line_width += carryover.len();
                    i += 1;
                }
            }
            self.line_width += word_width + trimmed_delta;

            i += 1;
            proof {
                let h = self.hard_width as nat;
                let wd = w0[i0];
                axiom_bytes_enc(wd);
                axiom_enc_empty();
                if words@.len() == w0.len() {
                    assert(words@.subrange(0, i as int) =~= w0.subrange(0, i0).push(wd));
                    lemma_w_plain(w0.subrange(0, i0), wd, h, lw_in, word_width as nat, trimmed_delta as nat);
                } else {
                    let prev = w0[i0 - 1];
                    let t = words@[i0 - 1];
                    let pm = w0.subrange(0, i0 - 1);
                    assert(w0.subrange(0, i0) =~= pm.push(prev));
                    let nl = words@[i0];
                    if words@.len() == w0.len() + 2 {
                        let c = words@[i0 + 1];
                        axiom_bytes_enc(c);
                        assert(words@.subrange(0, i as int) =~= pm.push(t).push(nl).push(c).push(wd));
                        lemma_w_break(pm, prev, t, nl, Some(c), wd, h, word_width as nat, trimmed_delta as nat);
                    } else {
                        assert(words@.subrange(0, i as int) =~= pm.push(t).push(nl).push(wd));
                        lemma_w_break(pm, prev, t, nl, None, wd, h, word_width as nat, trimmed_delta as nat);
                    }
                }
            }
            proof {
                let p0 = w0.subrange(0, i0);
                let o0 = orig.subrange(0, k);
                assert(orig.subrange(0, k + 1) =~= o0.push(orig[k]));
                assert(w0.subrange(i0 + 1, w0.len() as int) =~= orig.subrange(k + 1, orig.len() as int)) by {
                    assert(w0.subrange(i0 + 1, w0.len() as int) =~= w0.subrange(i0, w0.len() as int).subrange(1, w0.len() - i0));
                    assert(orig.subrange(k + 1, orig.len() as int) =~= orig.subrange(k, orig.len() as int).subrange(1, orig.len() - k));
                }
                if words@.len() == w0.len() {
                    assert(words@ =~= w0);
                    assert(words@.subrange(0, i as int) =~= p0.push(w0[i0]));
                    lemma_step_plain(p0, o0, w0[i0]);
                } else {
                    let t = words@[i0 - 1];
                    let pm = w0.subrange(0, i0 - 1);
                    assert(p0 =~= pm.push(w0[i0 - 1]));
                    if words@.len() == w0.len() + 2 {
                        let ins = seq![words@[i0], words@[i0 + 1]];
                        assert(words@.subrange(0, i as int) =~= (pm.push(t) + ins).push(w0[i0]));
                        assert(words@.subrange(i as int, words.len() as int) =~= w0.subrange(i0 + 1, w0.len() as int));
                        lemma_step_break(pm, w0[i0 - 1], t, ins, o0, w0[i0]);
                    } else {
                        let ins = seq![words@[i0]];
                        assert(words@.subrange(0, i as int) =~= (pm.push(t) + ins).push(w0[i0]));
                        assert(words@.subrange(i as int, words.len() as int) =~= w0.subrange(i0 + 1, w0.len() as int));
                        lemma_step_break(pm, w0[i0 - 1], t, ins, o0, w0[i0]);
                    }
                }
                k = k + 1;
            }
        }
        proof {
            assert(words@.subrange(0, i as int) =~= words@);
            assert(orig.subrange(0, k) =~= orig);
        }
        words
    }
}
}
fn main() {}
