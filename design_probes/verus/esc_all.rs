#![feature(pattern)]
#![verifier::allow(undeclared_external_trait)]
use vstd::prelude::*;
use core::str::pattern::Pattern;
verus! {

pub uninterp spec fn spec_replace<P>(s: Seq<char>, from: P, to: Seq<char>) -> Seq<char>;

pub assume_specification<P: Pattern> [str::replace::<P>] (s: &str, from: P, to: &str) -> (r: String)
    ensures r@ == spec_replace(s@, from, to@);

// zsh.rs — verbatim
fn escape_help(string: &str) -> String {
    string
        .replace('\\', "\\\\")
        .replace('\'', "'\\''")
        .replace('[', "\\[")
        .replace(']', "\\]")
        .replace(':', "\\:")
        .replace('$', "\\$")
        .replace('`', "\\`")
        .replace('\n', " ")
}

fn escape_value(string: &str) -> String {
    string
        .replace('\\', "\\\\")
        .replace('\'', "'\\''")
        .replace('[', "\\[")
        .replace(']', "\\]")
        .replace(':', "\\:")
        .replace('$', "\\$")
        .replace('`', "\\`")
        .replace('(', "\\(")
        .replace(')', "\\)")
        .replace(' ', "\\ ")
}

// powershell.rs — verbatim
fn escape_string_pwsh(string: &str) -> String {
    string.replace('\'', "''").replace('’', "'’")
}

// elvish.rs — verbatim
fn escape_string_elvish(string: &str) -> String {
    string.replace('\'', "''")
}

// fish.rs — verbatim
fn escape_name(name: &str) -> String {
    name.replace('-', "_")
}
}
fn main() {}
