use clap::{error::ErrorKind, Arg, ArgAction, Command};
fn cmd() -> Command {
    Command::new("prog").subcommand(Command::new("sync").long_flag("sync").arg(Arg::new("y").short('y').action(ArgAction::SetTrue)))
}
#[test]
fn control() {
    let m = cmd().try_get_matches_from(["prog", "--sync", "-y"]).unwrap();
    assert_eq!(m.subcommand_name(), Some("sync"));
}
#[test]
fn attached_value_is_not_dropped() {
    let r = cmd().try_get_matches_from(["prog", "--sync=foo"]);
    let e = r.expect_err("`foo` appears nowhere in the matches");
    assert_eq!(e.kind(), ErrorKind::TooManyValues);
    assert!(e.to_string().contains("foo") && e.to_string().contains("--sync"), "{e}");
}
