#![cfg(feature = "unstable-dynamic")]
use clap::{Arg, ArgAction, Command};
use std::ffi::OsString;

fn cmd() -> Command {
    Command::new("bin")
        .arg(Arg::new("opt").long("opt").action(ArgAction::Set))
        .arg(Arg::new("rootflag").long("rootflag").action(ArgAction::SetTrue))
        .arg(Arg::new("files").action(ArgAction::Append).num_args(1..))
        .subcommand(Command::new("build").arg(Arg::new("release").long("release").action(ArgAction::SetTrue)))
}
fn cands(args: &[&str]) -> Vec<String> {
    let mut c = cmd();
    let args: Vec<OsString> = args.iter().map(OsString::from).collect();
    let idx = args.len() - 1;
    clap_complete::engine::complete(&mut c, args, idx, None).unwrap().into_iter().map(|c| c.get_value().to_string_lossy().into_owned()).collect()
}
#[test]
fn pending_option_takes_the_subcommand_name() {
    // the real parser: `build` is the value of --opt, we stay at the root
    assert!(cmd().try_get_matches_from(["bin", "--opt", "build", "--rootflag"]).is_ok());
    assert!(cmd().try_get_matches_from(["bin", "--opt", "build", "--release"]).is_err());
    let c = cands(&["bin", "--opt", "build", "--r"]);
    assert!(c.contains(&"--rootflag".to_owned()), "{c:?}");
    assert!(!c.contains(&"--release".to_owned()), "{c:?}");
}
#[test]
fn escaped_word_is_not_a_subcommand() {
    assert!(cmd().try_get_matches_from(["bin", "--", "build", "x"]).unwrap().subcommand().is_none());
}
#[test]
fn collecting_positional_takes_the_subcommand_name() {
    assert!(cmd().try_get_matches_from(["bin", "a", "build", "--rootflag"]).is_ok());
    assert!(cmd().try_get_matches_from(["bin", "a", "build", "--release"]).is_err());
    let c = cands(&["bin", "a", "build", "--r"]);
    assert!(c.contains(&"--rootflag".to_owned()), "{c:?}");
    assert!(!c.contains(&"--release".to_owned()), "{c:?}");
}
#[test]
fn control_plain_subcommand() {
    let c = cands(&["bin", "build", "--r"]);
    assert_eq!(c, vec!["--release".to_owned()]);
}
