use clap::parser::ValueSource;
use clap::{error::ErrorKind, Arg, ArgAction, ArgGroup, Command};
fn cmd() -> Command {
    Command::new("p")
        .arg(Arg::new("a").long("a").action(ArgAction::SetTrue).overrides_with("b"))
        .arg(Arg::new("b").long("b").action(ArgAction::SetTrue))
        .arg(Arg::new("c").long("c").action(ArgAction::SetTrue))
        .group(ArgGroup::new("g").args(["b", "c"]).required(true))
}
#[test]
fn control_group_missing_is_reported() {
    let e = cmd().try_get_matches_from(["p", "--a"]).unwrap_err();
    assert_eq!(e.kind(), ErrorKind::MissingRequiredArgument);
}
#[test]
fn overridden_member_does_not_satisfy_the_required_group() {
    // --b is overridden by the later --a: no member of the required group `g` remains
    let r = cmd().try_get_matches_from(["p", "--b", "--a"]);
    match r {
        Err(e) => assert_eq!(e.kind(), ErrorKind::MissingRequiredArgument),
        Ok(m) => panic!("accepted; g source = {:?}, b source = {:?}, c source = {:?}", m.value_source("g"), m.value_source("b"), m.value_source("c")),
    }
    let _ = ValueSource::CommandLine;
}
