use clap::{Arg, ArgAction, Command};
fn one() -> Command {
    Command::new("prog")
        .infer_long_args(true)
        .infer_subcommands(true)
        .arg(Arg::new("temp").long("temp").action(ArgAction::SetTrue))
        .subcommand(Command::new("sub").long_flag("test"))
}
#[test]
fn control_full_spellings() {
    let m = one().try_get_matches_from(["prog", "--temp"]).unwrap();
    assert!(m.get_flag("temp") && m.subcommand_name().is_none());
    let m = one().try_get_matches_from(["prog", "--test"]).unwrap();
    assert_eq!(m.subcommand_name(), Some("sub"));
}
#[test]
fn prefix_with_a_candidate_of_each_kind_is_not_silently_resolved() {
    // `--te` is a prefix of the argument `--temp` AND of the long flag `--test` of subcommand `sub`
    let r = one().try_get_matches_from(["prog", "--te"]);
    assert!(r.is_err(), "two candidates, resolved silently: {:?}", r.map(|m| (m.get_flag("temp"), m.subcommand_name().map(str::to_owned))));
}
#[test]
fn an_unrelated_argument_must_not_flip_the_meaning() {
    // with a second argument `--term` the two arguments cancel each other and `--te` silently means the subcommand
    let two = one().arg(Arg::new("term").long("term").action(ArgAction::SetTrue));
    let r = two.try_get_matches_from(["prog", "--te"]);
    assert!(r.is_err(), "three candidates, resolved silently: {:?}", r.map(|m| m.subcommand_name().map(str::to_owned)));
}

#[test]
fn an_exact_long_flag_wins_over_an_argument_it_is_a_prefix_of() {
    // `--test` is exactly the long flag of `sub`, and a prefix of the argument `--tester`
    let cmd = Command::new("prog")
        .infer_long_args(true)
        .infer_subcommands(true)
        .arg(Arg::new("tester").long("tester").action(ArgAction::SetTrue))
        .subcommand(Command::new("sub").long_flag("test"));
    let m = cmd.try_get_matches_from(["prog", "--test"]).unwrap();
    assert_eq!(m.subcommand_name(), Some("sub"), "exact match wins");
    assert!(!m.get_flag("tester"));
}
