#![cfg(feature = "unstable-dynamic")]
use clap::{Arg, ArgAction, Command};
use std::ffi::OsString;
fn cmd() -> Command {
    Command::new("bin")
        .arg(Arg::new("opt").long("opt").short('o').alias("secret").short_alias('s').action(ArgAction::Set))
        .subcommand(Command::new("build"))
}
fn cands(args: &[&str]) -> Vec<String> {
    let mut c = cmd();
    let args: Vec<OsString> = args.iter().map(OsString::from).collect();
    let idx = args.len() - 1;
    clap_complete::engine::complete(&mut c, args, idx, None).unwrap().into_iter().map(|c| c.get_value().to_string_lossy().into_owned()).collect()
}
#[test]
fn control_visible_name() {
    // `bu` is the value of --opt: no subcommand is offered
    assert!(!cands(&["bin", "--opt", "bu"]).contains(&"build".to_owned()));
    assert!(!cands(&["bin", "-o", "bu"]).contains(&"build".to_owned()));
}
#[test]
fn hidden_alias_still_takes_its_value() {
    // the parser accepts the hidden aliases and takes `bu` as the option's value
    assert!(cmd().try_get_matches_from(["bin", "--secret", "bu"]).is_ok());
    assert!(cmd().try_get_matches_from(["bin", "-s", "bu"]).is_ok());
    let c = cands(&["bin", "--secret", "bu"]);
    assert!(!c.contains(&"build".to_owned()), "long alias: {c:?}");
    let c = cands(&["bin", "-s", "bu"]);
    assert!(!c.contains(&"build".to_owned()), "short alias: {c:?}");
}
