#!/bin/bash
# usage: tools/try_seed_copy.sh <patch.diff> <ID> [extra cv args]
# Like try_seed.sh but on a scratch export of /repo HEAD (for use while /repo itself is busy): the check runs in dev mode
# (CV_REPO != /repo), so no committed evidence is touched.
set -u
patch="$1"; id="$2"; shift 2
S=/tmp/repo_seed_$$
rm -rf $S && mkdir -p $S && git -C /repo archive HEAD | tar -x -C $S || exit 3
( cd $S && patch -p1 -s < "$patch" ) || { echo "patch does not apply"; rm -rf $S; exit 3; }
cd /verif
CV_REPO=$S CV_BUILD=/verif/build/seed_$$ ./cv check "$id" "$@"
rc=$?
rm -rf $S /verif/build/seed_$$
echo "EXIT=$rc"
exit $rc
