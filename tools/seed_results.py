#!/usr/bin/env python3
"""Write seeded/<id>/meta.json from the table below (filled in by hand from the recorded runs of
tools/try_seed.sh; every seed was first confirmed with tools/confirm_seed.sh: the 1346 existing tests pass
with the change, the demonstration fails with it and passes without it)."""
import json, os
ROOT = os.path.dirname(os.path.dirname(os.path.abspath(__file__)))
T = {}
def seed(id, prop, breaks, needs, ran, outcome, caught_by, note=''):
    T[id] = dict(seed=id, property=prop, breaks=breaks, needs_to_manifest=needs, checks_run=ran, outcome=outcome, caught_by=caught_by, note=note,
                 confirmed='tools/confirm_seed.sh: existing suite 1346/1346 passed with the change; demonstration fails with it and passes without it')
exec(open(os.path.join(ROOT, 'tools', 'seed_table.py')).read())
for id, m in T.items():
    d = os.path.join(ROOT, 'seeded', id)
    if os.path.isdir(d):
        json.dump(m, open(os.path.join(d, 'meta.json'), 'w'), indent=1)
print('%d seeds; caught %d, undecided %d, missed %d' % (len(T), sum(1 for m in T.values() if m['outcome'] == 'caught'),
      sum(1 for m in T.values() if m['outcome'] == 'undecided'), sum(1 for m in T.values() if m['outcome'] == 'missed')))
