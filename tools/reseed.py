#!/usr/bin/env python3
"""Re-run every kept seeded change (seeded/<id>/patch*.diff) against the CURRENT machinery on a scratch export of /repo HEAD and
report where the outcome differs from tools/seed_table.py.  usage: tools/reseed.py [-j N] [--verus-only] [seed ids]
(--verus-only skips the Kani units: fast, for use after a change to the Verus templates or the splicer; a seed the table lists as caught
by a Kani harness then shows as missed / undecided, which is not a change)"""
import subprocess, re, sys, os
from concurrent.futures import ThreadPoolExecutor
T = {}
def seed(id, prop, b, n, r, o, c, note=''): T[id] = (r, o)
exec(open('/verif/tools/seed_table.py').read())
args = sys.argv[1:]
jobs = 3
if args and args[0] == '-j':
    jobs = int(args[1]); args = args[2:]
if args and args[0] == '--verus-only':
    os.environ['CV_ONLY_BACKEND'] = 'verus'; args = args[1:]
only = set(args)
def one(item):
    sid, (ran, outcome) = item
    d = '/verif/seeded/' + sid
    patches = sorted(f for f in os.listdir(d) if f.startswith('patch_rebased'))
    patch = os.path.join(d, patches[-1] if patches else 'patch.diff')
    res = []
    for cmd in ran.split(';'):
        m = re.search(r'cv check (\S+)(.*)', cmd.strip())
        if not m:
            continue
        a = [m.group(1)] + m.group(2).split()
        p = subprocess.run(['/verif/tools/try_seed_copy.sh', patch] + a, capture_output=True, text=True)
        out = p.stdout + p.stderr
        if 'patch does not apply' in out or ('FAILED' in out and 'hunk' in out): res.append('noapply')
        elif 'VIOLATION' in out: res.append('caught')
        elif re.search(r'EXIT=2', out): res.append('undecided')
        elif re.search(r'EXIT=0', out): res.append('missed')
        else: res.append('?')
    now = 'caught' if 'caught' in res else ('undecided' if 'undecided' in res else ('noapply' if 'noapply' in res else 'missed'))
    flag = '' if now == outcome else '   <<<<< CHANGED (table says %s)' % outcome
    print(sid, now, res, flag, flush=True)
with ThreadPoolExecutor(jobs) as ex:
    list(ex.map(one, [i for i in T.items() if not only or i[0] in only]))
print('RESEED-DONE', flush=True)
