#!/bin/bash
# usage: tools/confirm_seed.sh <seed_dir> <worktree> <demo_dir> <demo_cmd...>
# Confirms a seeded change myself: applies in the scratch worktree, runs the whole existing suite, runs the
# demonstration with and without the change.  Prints a summary; exit 0 iff suite passes, demo fails with, passes without.
seed="$1"; wt="$2"; demodir="$3"; shift 3
export CARGO_NET_OFFLINE=true CARGO_TARGET_DIR="$wt/target/confirm_demo"
cd "$wt" && git checkout -q -- . && git apply "$seed/patch.diff" || { echo "patch failed"; exit 3; }
( cd "$wt" && CARGO_TARGET_DIR="$wt/target" cargo nextest run --workspace --no-fail-fast --tool-config-file pb:/w/lib/nextest.toml --profile pb --test-threads 8 --offline 2>&1 | grep -E "Summary|FAIL" | head -5 ) > "$seed/confirm_suite.txt"
suite=$(grep -c "1346 passed" "$seed/confirm_suite.txt")
( cd "$demodir" && "$@" ) > "$seed/confirm_with.txt" 2>&1; with=$?
cd "$wt" && git checkout -q -- .
( cd "$demodir" && "$@" ) > "$seed/confirm_without.txt" 2>&1; without=$?
echo "suite_all_pass=$suite demo_exit_with=$with demo_exit_without=$without  ($(cat $seed/confirm_suite.txt | tr '\n' ' '))"
[ "$suite" = "1" ] && [ "$with" != "0" ] && [ "$without" = "0" ]
