#!/usr/bin/env python3
"""Print the DESIGN.md table rows for the given seed ids (from tools/seed_table.py)."""
import os, sys
ROOT = os.path.dirname(os.path.dirname(os.path.abspath(__file__)))
T = {}
def seed(id, prop, breaks, needs, ran, outcome, caught_by, note=''):
    T[id] = (breaks, needs, outcome, caught_by, note)
exec(open(os.path.join(ROOT, 'tools', 'seed_table.py')).read())
def row(i):
    b, n, o, c, note = T[i]
    why = '; '.join(c)
    if note: why = (why + ' — ' if why else '') + note
    return '| %s | %s (needs: %s) | **%s** | %s |' % (i, b.replace('|', '\\|'), n.replace('|', '\\|'), o, why.replace('|', '\\|'))
if __name__ == '__main__':
    for i in sys.argv[1:]:
        print(row(i))
