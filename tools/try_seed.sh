#!/bin/bash
# usage: tools/try_seed.sh <patch.diff> <ID> [extra cv args]   — apply a seeded change to /repo, run the check, undo it
set -u
patch="$1"; id="$2"; shift 2
cd /repo || exit 3
if [ -n "$(git status --porcelain --untracked-files=no)" ]; then echo "/repo not clean"; exit 3; fi
git apply "$patch" || { echo "patch does not apply"; exit 3; }
cd /verif
./cv check "$id" "$@"
rc=$?
git -C /repo checkout -- .
echo "EXIT=$rc"
exit $rc
