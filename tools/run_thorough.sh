#!/bin/bash
# run the thorough tier of every claimed property, one after the other; prints one summary line each
cd "$(dirname "$0")/.."
for p in C01 C03 C05 C06 C08 C09 C17 C12 C10 C07 C20 C14 C18 C02 C13 C04; do
  s=$(date +%s)
  ./cv check $p --tier thorough > thorough_$p.log 2>&1
  rc=$?
  echo "$p exit=$rc wall=$(( $(date +%s) - s ))s $(grep -c '^\[ok\]' thorough_$p.log) ok, $(grep -c UNDECIDED thorough_$p.log) undecided, $(grep -c VIOLATION thorough_$p.log) violations"
  grep -E "UNDECIDED|VIOLATION" thorough_$p.log | cut -c1-200
done
echo ALLDONE
