"""Splice real functions of /repo, verbatim, into a Verus file.

A unit's template (`*.vrs`) is ordinary Verus text with directive blocks:

    //@splice file=<repo path> item=<Type::fn | fn> [trait=<Trait>|none] [nth=N] [opts=a,b]
    //@attr                       <- text inserted before the fn keyword (verifier attributes)
    //@spec                       <- requires/ensures, inserted between signature and body
    //@body_start | //@body_end   <- ghost statements at the start / end of the body
    //@loop N binder              <- ghost binder for the N-th `for` loop (`it`)
    //@loop N before | inv | body_start | body_end
    //@end

    //@item file=<repo path> item=<name>           copy a struct/enum/const item verbatim
    //@fields file=<repo path> struct=<Name> fields=a,b [derive=..]   re-declare a struct with only these fields

Only the rules X1..X5 of DESIGN.md §1.1 are applied to the copied text; the ones that
fired are returned for the evidence file.  Anything that cannot be located raises
AnchorLost (unit becomes *undecided*, never a violation)."""
from __future__ import annotations
import os
import re
from dataclasses import dataclass, field
from . import rustscan as rs


class AnchorLost(Exception):
    pass


@dataclass
class SpliceResult:
    text: str
    linemap: list           # per output line: (repo_file, line) or None
    functions: list         # dicts: file, item, line_start, line_end
    rules: dict             # rule -> count
    dropped_debug_asserts: list
    canary_points: int


_DIRECTIVE = re.compile(r'^\s*//@(\w+)(.*)$')


def _kv(rest: str) -> dict:
    out = {}
    for part in rest.split():
        if '=' in part:
            k, v = part.split('=', 1)
            out[k] = v
    return out


def _macro_body(repo, name):
    path = os.path.join(repo, 'clap_builder/src/macros.rs')
    src = open(path).read()
    m = re.search(r'macro_rules!\s+%s\s*\{\s*\(\$expr:expr\)\s*=>\s*\{' % name, src)
    if not m:
        raise AnchorLost('macro %s! not found in macros.rs' % name)
    toks = rs.tokenize(src[m.end() - 1:])
    close = rs.match_close(toks, 0)
    body = ''.join(t.text for t in toks[1:close])
    return ' '.join(body.split())


class _Edit:
    """token-level edit list over one item's token slice"""

    def __init__(self, toks):
        self.toks = toks
        self.repl = {}      # idx -> replacement text (None = keep)
        self.before = {}    # idx -> [text] inserted before token idx
        self.after = {}     # idx -> [text] inserted after token idx

    def blank(self, a, b):
        """replace tokens a..b inclusive by whitespace with the same number of newlines"""
        for k in range(a, b + 1):
            self.repl[k] = '\n' * self.toks[k].text.count('\n')

    def replace(self, a, b, text):
        nl = sum(self.toks[k].text.count('\n') for k in range(a, b + 1))
        for k in range(a, b + 1):
            self.repl[k] = ''
        self.repl[a] = text + '\n' * max(0, nl - text.count('\n'))

    def ins_before(self, k, text):
        self.before.setdefault(k, []).append(text)

    def ins_after(self, k, text):
        self.after.setdefault(k, []).append(text)

    def render(self, lo, hi, file):
        """-> (lines, linemap)"""
        chunks = []   # (text, srcline|None)
        for k in range(lo, hi + 1):
            for t in self.before.get(k, []):
                chunks.append((t, None))
            txt = self.repl.get(k, self.toks[k].text)
            chunks.append((txt, self.toks[k].line))
            for t in self.after.get(k, []):
                chunks.append((t, None))
        lines, lmap = [''], [None]
        for txt, sl in chunks:
            parts = txt.split('\n')
            for pi, part in enumerate(parts):
                if pi > 0:
                    lines.append('')
                    lmap.append(None)
                if part.strip() and lmap[-1] is None and sl is not None:
                    lmap[-1] = (file, sl + pi)
                lines[-1] += part
        return lines, lmap


def _apply_rules(ed: _Edit, toks, lo, hi, repo, opts, rules, dropped, file):
    ci = [k for k in range(lo, hi + 1) if toks[k].kind not in ('ws', 'comment', 'doc')]
    pos = {k: p for p, k in enumerate(ci)}
    features = set(o[len('feature:'):] for o in opts if o.startswith('feature:'))

    def bump(r):
        rules[r] = rules.get(r, 0) + 1

    # X3: doc comments
    for k in range(lo, hi + 1):
        if toks[k].kind == 'doc':
            ed.blank(k, k)
            bump('X3-doc')
    p = 0
    while p < len(ci):
        k = ci[p]
        t = toks[k]
        # X3 visibility
        if t.kind == 'ident' and t.text == 'pub' and 'keep_vis' not in opts:
            nk = ci[p + 1] if p + 1 < len(ci) else None
            if nk is not None and toks[nk].kind == 'open' and toks[nk].text == '(':
                c = rs.match_close(toks, nk)
                inner = ''.join(x.text for x in toks[nk + 1:c]).strip()
                if inner in ('crate', 'super', 'self') or inner.startswith('in '):
                    ed.blank(k, c)
                    bump('X3-vis')
                    p = pos[c] + 1
                    continue
            ed.blank(k, k)
            bump('X3-vis')
            p += 1
            continue
        # attributes
        if t.kind == 'punct' and t.text == '#':
            nk = ci[p + 1] if p + 1 < len(ci) else None
            if nk is not None and toks[nk].kind == 'punct' and toks[nk].text == '!' and p + 2 < len(ci) and toks[ci[p + 2]].text == '[':
                # inner attribute `#![allow(..)]` inside a function body: lint configuration only
                c2 = rs.match_close(toks, ci[p + 2])
                inner2 = ''.join(x.text for x in toks[ci[p + 2] + 1:c2]).strip()
                if inner2.startswith('allow') or inner2.startswith('warn') or inner2.startswith('deny'):
                    ed.blank(k, c2)
                    bump('X3-attr')
                    p = pos[c2] + 1
                    continue
            if nk is not None and toks[nk].kind == 'open' and toks[nk].text == '[':
                c = rs.match_close(toks, nk)
                inner = ''.join(x.text for x in toks[nk + 1:c]).strip()
                head = re.match(r'[A-Za-z_:]+', inner)
                head = head.group(0) if head else ''
                if head in ('inline', 'must_use', 'allow', 'doc', 'track_caller', 'cold', 'deprecated', 'cfg_attr'):
                    ed.blank(k, c)
                    bump('X3-attr')
                    p = pos[c] + 1
                    continue
                if head == 'derive' and 'drop_derive' in opts:
                    ed.blank(k, c)
                    bump('X3-derive')
                    p = pos[c] + 1
                    continue
                if head == 'cfg':
                    keep = _eval_cfg(inner, features)
                    if keep is None:
                        raise AnchorLost('cannot evaluate %s' % inner)
                    if keep:
                        ed.blank(k, c)
                    else:
                        # drop the attribute and the following statement / block / item
                        e = _stmt_end(toks, ci, pos[c] + 1)
                        ed.blank(k, e)
                        p = pos[e] + 1
                        bump('X4-cfg')
                        continue
                    bump('X4-cfg')
                    p = pos[c] + 1
                    continue
        # macros
        if t.kind == 'ident' and p + 2 < len(ci) and toks[ci[p + 1]].text == '!' and toks[ci[p + 2]].kind == 'open':
            o = ci[p + 2]
            c = rs.match_close(toks, o)
            after = ci[pos[c] + 1] if pos[c] + 1 < len(ci) else None
            if t.text == 'debug':
                e = after if after is not None and toks[after].text == ';' else c
                ed.blank(k, e)
                bump('X1-debug')
                p = pos[e] + 1
                continue
            if t.text in ('debug_assert', 'debug_assert_eq', 'debug_assert_ne') and 'drop_debug_assert' in opts:
                e = after if after is not None and toks[after].text == ';' else c
                dropped.append('%s:%d %s' % (file, t.line, ' '.join(''.join(x.text for x in toks[k:c + 1]).split())))
                ed.blank(k, e)
                bump('X1b-debug_assert')
                p = pos[e] + 1
                continue
            if t.text == 'unreachable' and 'unreachable_diverges' in opts:
                # X1c: `unreachable!(..)` becomes a call of a diverging environment function (no precondition):
                # reaching it is a panic, which the contract neither forbids nor assumes away
                dropped.append('%s:%d %s -> cv_unreachable() (X1c: panic site kept as a diverging call; panic-freedom not claimed)' % (
                    file, t.line, ' '.join(''.join(x.text for x in toks[k:c + 1]).split())[:80]))
                ed.replace(k, c, 'cv_unreachable()')
                bump('X1c-unreachable')
                p = pos[c] + 1
                continue
            if t.text in ('ok', 'some'):
                body = _macro_body(repo, t.text)
                if body.count('$expr') != 1:
                    raise AnchorLost('macro %s!: unexpected body' % t.text)
                pre, suf = body.split('$expr')
                # compositional expansion: the argument's own tokens stay in place (so the other rules apply inside it)
                ed.replace(k, o, '(' + pre + '(')
                ed.replace(c, c, ')' + suf + ')')
                bump('X2-' + t.text)
                p = pos[o] + 1
                continue
        # X2e: `matches!(E, P1 | P2 if G)` is the match that macro expands to, with the guard repeated on each alternative
        # (Verus has no or-pattern with a guard): `(match E { P1 if G => true, P2 if G => true, _ => false })`
        if 'desugar_matches_guard' in opts and t.kind == 'ident' and t.text == 'matches' and p + 2 < len(ci) \
                and toks[ci[p + 1]].text == '!' and toks[ci[p + 2]].text == '(':
            mo = ci[p + 2]
            mc = rs.match_close(toks, mo)
            inner = [j for j in ci[p + 3:pos[mc]]]
            # split at the first top-level comma, then at the top-level `if`
            depth, comma, if_at, bars = 0, None, None, []
            for j in inner:
                tj = toks[j]
                if tj.kind == 'open':
                    depth += 1
                elif tj.kind == 'close':
                    depth -= 1
                elif depth == 0 and tj.text == ',' and comma is None:
                    comma = j
                elif depth == 0 and comma is not None and tj.kind == 'ident' and tj.text == 'if' and if_at is None:
                    if_at = j
                elif depth == 0 and comma is not None and if_at is None and tj.text == '|':
                    bars.append(j)
            if comma is not None and if_at is not None:
                expr = ''.join(x.text for x in toks[mo + 1:comma]).strip()
                guard = ''.join(x.text for x in toks[if_at + 1:mc]).strip()
                cuts = [comma] + bars + [if_at]
                pats = [''.join(x.text for x in toks[cuts[i] + 1:cuts[i + 1]]).strip() for i in range(len(cuts) - 1)]
                arms = ' '.join('%s if %s => true,' % (pt, guard) for pt in pats)
                ed.replace(k, mc, '(match %s { %s _ => false })' % (expr, arms))
                dropped.append('%s:%d matches!(.., P1 | P2 if G) written as the match it expands to, guard repeated per alternative (X2e)' % (file, t.line))
                bump('X2e-matches')
                p = pos[mc] + 1
                continue
        # X2b: `RECV.map_err(|e| { BODY })` with an inline closure becomes the match it abbreviates (std's definition of
        # Result::map_err), so that the closure body is ordinary code of the function
        if 'desugar_map_err' in opts and t.kind == 'ident' and t.text == 'map_err' and p >= 1 and toks[ci[p - 1]].text == '.' \
                and p + 5 < len(ci) and toks[ci[p + 1]].text == '(' and toks[ci[p + 2]].text == '|' and toks[ci[p + 3]].kind == 'ident' \
                and toks[ci[p + 4]].text == '|':
            call_open = ci[p + 1]
            call_close = rs.match_close(toks, call_open)
            # (the closure body is a block `{ BODY }` or an expression: either way everything up to the call's closing parenthesis;
            # a parameter `_` is the wildcard pattern of the Err arm)
            q = _receiver_start(toks, ci, p - 2)
            param = toks[ci[p + 3]].text
            ed.ins_before(ci[q], '(match (')
            ed.replace(ci[p - 1], ci[p + 4], ') { Ok(cv_ok) => Ok(cv_ok), Err(%s) => Err(' % param)
            ed.replace(call_close, call_close, ') })')
            dropped.append('%s:%d .map_err(|%s| {..}) written as the match it abbreviates (X2b)' % (file, t.line, param))
            bump('X2b-map_err')
            p = p + 5
            continue
        p += 1


def _receiver_start(toks, ci, q):
    """code position of the first token of the postfix expression whose last token is at code position q"""
    while q >= 0:
        tq = toks[ci[q]]
        if tq.text == '?':
            # the postfix `?` belongs to the receiver chain
            q -= 1
            continue
        if tq.kind == 'close' and tq.text in (')', ']'):
            depth, r = 0, q
            while r >= 0:
                if toks[ci[r]].kind == 'close':
                    depth += 1
                elif toks[ci[r]].kind == 'open':
                    depth -= 1
                    if depth == 0:
                        break
                r -= 1
            if r < 0:
                break
            q = r
            if q - 1 >= 0 and (toks[ci[q - 1]].kind == 'ident' or (toks[ci[q - 1]].kind == 'close' and toks[ci[q - 1]].text in (')', ']'))):
                q -= 1
                continue
            return q
        if tq.kind == 'ident':
            if q - 1 >= 0 and toks[ci[q - 1]].text == '.':
                q -= 2
                continue
            if q - 2 >= 0 and toks[ci[q - 1]].text == ':' and toks[ci[q - 2]].text == ':':
                q -= 3
                continue
            return q
        return q + 1
    raise AnchorLost('receiver expression not found')


def _eval_cfg(inner, features):
    m = re.fullmatch(r'cfg\s*\(\s*feature\s*=\s*"([^"]+)"\s*\)', inner)
    if m:
        return m.group(1) in features
    m = re.fullmatch(r'cfg\s*\(\s*not\s*\(\s*feature\s*=\s*"([^"]+)"\s*\)\s*\)', inner)
    if m:
        return m.group(1) not in features
    m = re.fullmatch(r'cfg\s*\(\s*debug_assertions\s*\)', inner)
    if m:
        return 'debug_assertions' in features
    m = re.fullmatch(r'cfg\s*\(\s*(test|kani)\s*\)', inner)
    if m:
        return False
    return None


def _stmt_end(toks, ci, p):
    """end token index of the statement/item starting at code position p"""
    # skip further attributes
    while p < len(ci):
        t = toks[ci[p]]
        if t.kind == 'open':
            c = rs.match_close(toks, ci[p])
            if t.text == '{':
                # block expression/statement: ends here unless followed by ';' or else
                nxt = ci[ci.index(c) + 1] if ci.index(c) + 1 < len(ci) else None
                if nxt is not None and toks[nxt].text == ';':
                    return nxt
                if nxt is not None and toks[nxt].text == 'else':
                    p = ci.index(nxt) + 1
                    continue
                return c
            p = ci.index(c) + 1
            continue
        if t.kind == 'punct' and t.text == ';':
            return ci[p]
        if t.kind == 'punct' and t.text == ',':
            return ci[p]
        p += 1
    raise AnchorLost('statement end not found')


def _fn_signature_end(toks, item):
    """index of the body '{'"""
    if item.body_open is None:
        raise AnchorLost('function %s has no body' % item.name)
    return item.body_open


def splice_fn(repo, file, item_path, sections, trait=None, nth=0, opts=(), canary=False, rules=None, dropped=None, lift=False, auto_lines=None, nth_explicit=False):
    path = os.path.join(repo, file)
    if not os.path.exists(path):
        raise AnchorLost('file missing: %s' % file)
    src = open(path).read()
    try:
        toks = rs.tokenize(src)
        item, blk = rs.find_item(toks, item_path, trait, nth, nth_explicit)
    except rs.ScanError as e:
        raise AnchorLost(str(e))
    if item.kind != 'fn':
        raise AnchorLost('%s is not a fn' % item_path)
    rules = {} if rules is None else rules
    dropped = [] if dropped is None else dropped
    ed = _Edit(toks)
    _apply_rules(ed, toks, item.start_idx, item.end_idx, repo, opts, rules, dropped, file)
    body_open = _fn_signature_end(toks, item)
    body_close = item.end_idx
    if 'sig' in sections:
        # X9 (one instance of a generic function): the signature — from `fn` to the body — is replaced by the text of `//@sig`, the
        # function's type parameters being instantiated at opaque environment types that offer exactly what the bounds offer
        # (`T: AsRef<str>` -> a type with `as_ref`).  `//@sig_was` holds the signature the unit was written for: any other text loses
        # the anchor.  What is proved is proved for that instance; the body is the real text.
        want_s = [t.text for t in rs.tokenize(sections.get('sig_was', '')) if t.kind not in ('ws', 'comment', 'doc')]
        sig_ci = [k for k in range(item.kw_idx, body_open) if toks[k].kind not in ('ws', 'comment', 'doc')]
        if not want_s or [toks[k].text for k in sig_ci] != want_s:
            raise AnchorLost('%s: the signature is `%s`, the unit was written for `%s`' % (item_path, ' '.join(toks[k].text for k in sig_ci), ' '.join(want_s)))
        ed.replace(sig_ci[0], sig_ci[-1], sections['sig'].strip() + ' ')
        rules['X9-instance'] = rules.get('X9-instance', 0) + 1
        dropped.append('%s:%d generic function verified at ONE instance of its type parameters (X9): %s' % (file, toks[item.kw_idx].line, ' '.join(sections['sig'].split())))
    lift_info = None
    if lift:
        # X2g (lambda lifting): the braced body of the inline closure passed at `//@lift_anchor` (`RECV.method`) is emitted as a
        # function of its own — header from `//@lift_sig`: the closure's parameters first, in order and by name, then the variables
        # it captures, each of which must occur in the body — so that it can carry a contract.  The body text is the real text
        # (every other rule applies inside it); nothing outside the closure is emitted by this splice.
        fn_open, fn_close = body_open, body_close
        want = [t.text for t in rs.tokenize(sections.get('lift_anchor', '')) if t.kind not in ('ws', 'comment', 'doc')]
        if not want or 'lift_sig' not in sections:
            raise AnchorLost('%s: lift needs //@lift_anchor and //@lift_sig' % item_path)
        fci = [k for k in range(fn_open + 1, fn_close) if toks[k].kind not in ('ws', 'comment', 'doc')]
        hits = [q for q in range(len(fci) - len(want)) if [toks[fci[q + j]].text for j in range(len(want))] == want]
        if len(hits) != 1:
            raise AnchorLost('%s: //@lift_anchor matches %d times (statement text changed?)' % (item_path, len(hits)))
        q = hits[0] + len(want)
        if toks[fci[q]].text == '(' and toks[fci[q + 1]].text == 'move' and toks[fci[q + 2]].text == '|':
            q += 1          # a `move` closure: what it captures becomes a parameter of the emitted function all the same
        if toks[fci[q]].text != '(' and toks[fci[q]].text != 'move' or toks[fci[q + 1]].text != '|':
            raise AnchorLost('%s: //@lift_anchor is not followed by an inline closure' % item_path)
        q += 2
        cparams, cpat = [], None
        q0 = q
        while q < len(fci) and toks[fci[q]].text != '|':
            if toks[fci[q]].kind == 'ident':
                cparams.append(toks[fci[q]].text)
            q += 1
        if any(toks[fci[j]].kind != 'ident' and toks[fci[j]].text != ',' for j in range(q0, q)):
            # a parameter PATTERN (`|(_, matched)|`): the emitted function takes ONE parameter (first of //@lift_sig) and its body
            # starts with `let PATTERN = that parameter;`
            cpat = ''.join(toks[j].text for j in range(fci[q0], fci[q - 1] + 1))
            cparams = []
        q += 1
        call_open = fci[hits[0] + len(want)]
        call_close = rs.match_close(toks, call_open)
        if q >= len(fci):
            raise AnchorLost('%s: lifted closure has no body' % item_path)
        lift_braces = False
        if toks[fci[q]].text == '{' and [k for k in range(rs.match_close(toks, fci[q]) + 1, call_close) if toks[k].kind not in ('ws', 'comment', 'doc') and toks[k].text != ','] == []:
            cl_open = fci[q]
            cl_close = rs.match_close(toks, cl_open)
        else:
            # an expression body (`|x| EXPR`): the function body is `{ EXPR }`
            cl_open = fci[q]
            last = [k for k in range(cl_open, call_close) if toks[k].kind not in ('ws', 'comment', 'doc')]
            while last and toks[last[-1]].text == ',':
                last.pop()
            cl_close = last[-1]
            lift_braces = True
        sig = sections['lift_sig'].strip()
        msig = re.match(r'^fn\s+([A-Za-z_0-9]+)\s*(?:<[^>]*>)?\s*\((.*)\)\s*->', sig, re.S)
        if not msig:
            raise AnchorLost('%s: //@lift_sig is not `fn name(params) -> (r: T)`' % item_path)
        pnames = [x.split(':')[0].strip() for x in msig.group(2).split(',') if ':' in x]
        if cpat is not None:
            cpat = 'let %s = %s; ' % (cpat, pnames[0])
            cparams = [pnames[0]]
        if pnames[:len(cparams)] != cparams:
            raise AnchorLost('%s: lifted closure takes |%s|, the unit declares (%s)' % (item_path, ', '.join(cparams), ', '.join(pnames)))
        body_words = set(toks[k].text for k in range(cl_open, cl_close + 1) if toks[k].kind == 'ident')
        for cap in pnames[len(cparams):]:
            if cap not in body_words:
                raise AnchorLost('%s: lifted closure no longer mentions the captured `%s`' % (item_path, cap))
        if cpat is not None and not lift_braces:
            ed.ins_after(cl_open, ' ' + cpat)
        lift_info = (cl_open, cl_close, msig.group(1), sig, lift_braces, cpat)
        # (an expression body has no braces of its own: the rules that look strictly inside the body get the tokens around it)
        body_open, body_close = (cl_open, cl_close) if not lift_braces else (cl_open - 1, cl_close + 1)
        rules['X2g-lift'] = rules.get('X2g-lift', 0) + 1
        dropped.append('%s:%d closure body emitted as the function `%s` (X2g): its parameters, then the captured variables, become the parameters' % (
            file, toks[cl_open].line, msig.group(1)))
    loops = rs.loops_in(toks, body_open, body_close)
    used = 0
    if 'for_as_while_let' in opts:
        # X2c: `for PAT in EXPR { BODY }` written as the loop the language defines it to be,
        # `{ let mut it = (EXPR).into_iter(); while let Some(PAT) = it.next() { BODY } }` (Verus has no `continue` in `for`)
        for n, (kw, lopen, lclose) in enumerate(loops):
            if toks[kw].text != 'for':
                continue
            k, in_idx = kw + 1, None
            while k < lopen:
                if toks[k].kind == 'open':
                    k = rs.match_close(toks, k) + 1
                    continue
                if toks[k].kind == 'ident' and toks[k].text == 'in':
                    in_idx = k
                    break
                k += 1
            if in_idx is None:
                raise AnchorLost('for-loop header without `in`')
            pat = ' '.join(''.join(t.text for t in toks[kw + 1:in_idx]).split())
            code = [j for j in range(in_idx + 1, lopen) if toks[j].kind not in ('ws', 'comment', 'doc')]
            if not code:
                raise AnchorLost('for-loop header without an iterator expression')
            ed.blank(kw, in_idx)
            # X2h (`opts=for_filter_as_continue`): `for PAT in ITER.filter(|FP| COND) { BODY }` is the loop over ITER that skips the
            # elements for which COND, given a reference to the element, is false:
            #   `while let Some(cv_f) = it.next() { { let FP = &cv_f; if !(COND) { continue; } } let PAT = cv_f; BODY }`
            # (several trailing `.filter(..)` calls: their tests in order).  The filter's CONDITION becomes verified text.
            filt_pre = ''
            if 'for_filter_as_continue' in opts:
                tests = []
                while len(code) >= 4 and toks[code[-1]].text == ')':
                    o = None
                    for cj in range(len(code) - 1, -1, -1):
                        if toks[code[cj]].kind == 'open' and rs.match_close(toks, code[cj]) == code[-1]:
                            o = cj
                            break
                    if o is None or o < 2 or toks[code[o - 1]].text != 'filter' or toks[code[o - 2]].text != '.' or toks[code[o + 1]].text != '|':
                        break
                    pe = o + 2
                    while pe < len(code) and toks[code[pe]].text != '|':
                        pe += 1
                    fpat = ''.join(toks[j].text for j in range(code[o + 2], code[pe - 1] + 1)) if pe > o + 2 else '_'
                    cond = ''.join(toks[j].text for j in range(code[pe + 1], code[-1]) if toks[j].kind not in ('comment', 'doc'))
                    cond = ' '.join(cond.split())
                    tests.insert(0, (fpat, cond))
                    ed.blank(code[o - 2], code[-1])
                    code = code[:o - 2]
                if tests:
                    for fpat, cond in tests:
                        filt_pre += ' { let %s = &cv_f%d; if !(%s) { continue; } }' % (fpat, n, cond)
                    m_refp = re.fullmatch(r'&\s*([A-Za-z_][A-Za-z0-9_]*)', pat)
                    if m_refp:
                        # `for &x in ..`: the reference pattern (outside Verus) is written as `let x = *element;`
                        filt_pre += ' let %s = *cv_f%d; ' % (m_refp.group(1), n)
                    else:
                        filt_pre += ' let %s = cv_f%d; ' % (pat, n)
                    rules['X2h-for-filter'] = rules.get('X2h-for-filter', 0) + len(tests)
                    dropped.append('%s:%d `for %s in ITER%s` written as the loop over ITER that skips (`continue`) an element failing the test (X2h)' % (
                        file, toks[kw].line, pat, ''.join('.filter(|%s| %s)' % t for t in tests)))
                    pat = 'cv_f%d' % n
            # `//@loop N iter`: X7 for the iterator expression of THIS loop (what is left of it after X2h), addressed by the loop's ordinal
            # because the same text may occur elsewhere in the function.  First line: the expected text (else the anchor is lost);
            # the rest: the environment call that stands for it.
            lk = 'loop %d iter' % n
            if lk in sections:
                parts = sections[lk].strip().split('\n', 1)
                if len(parts) != 2:
                    raise AnchorLost('template: //@%s needs the expected text on its first line and the replacement after it' % lk)
                want_i = [t.text for t in rs.tokenize(parts[0]) if t.kind not in ('ws', 'comment', 'doc')]
                if [toks[j].text for j in code] != want_i:
                    raise AnchorLost('%s: iterator expression of loop %d is `%s`, the unit expects `%s`' % (
                        item_path, n, ' '.join(toks[j].text for j in code), ' '.join(want_i)))
                ed.replace(code[0], code[-1], parts[1].strip())
                rules['X7-replace'] = rules.get('X7-replace', 0) + 1
                dropped.append('%s:%d statement replaced by an assumed environment call (X7): %s' % (file, toks[code[0]].line, parts[0].strip()))
                code = [code[0]]
            # a loop label (`'outer: for ..`) moves with the loop: it is re-attached to the `while let`
            label = ''
            prev = [j for j in range(max(0, kw - 8), kw) if toks[j].kind not in ('ws', 'comment', 'doc')]
            if len(prev) >= 2 and toks[prev[-1]].text == ':' and toks[prev[-2]].kind == 'lifetime':
                label = toks[prev[-2]].text + ': '
                ed.blank(prev[-2], prev[-1])
            ed.ins_before(code[0], '{ let mut cv_it%d = (' % n)
            m_ref = re.fullmatch(r'&\s*([A-Za-z_][A-Za-z0-9_]*)', pat)
            if m_ref:
                # `for &x in ..`: the reference pattern (outside Verus) is written as a binding followed by `let x = *binding;`
                ed.ins_after(code[-1], ').into_iter(); %swhile let Some(cv_ref%d) = cv_it%d.next() ' % (label, n, n))
                ed.ins_after(lopen, ' let %s = *cv_ref%d; ' % (m_ref.group(1), n))
            else:
                ed.ins_after(code[-1], ').into_iter(); %swhile let Some(%s) = cv_it%d.next() ' % (label, pat, n))
            if filt_pre:
                ed.ins_after(lopen, filt_pre)
            ed.ins_after(lclose, ' }')
            rules['X2c-for'] = rules.get('X2c-for', 0) + 1
            dropped.append('%s:%d `for %s in ..` written as `while let Some(%s) = it.next()` over `.into_iter()` (X2c)' % (file, toks[kw].line, pat, pat))
    if 'split_or_guard_arms' in opts:
        # X2e (match arms): `P1 | P2 if G => BODY` is written as `P1 if G => BODY, P2 if G => BODY` (Verus has no match arm with both
        # an or-pattern and a guard); the guard and the body are repeated verbatim
        bci = [k for k in range(body_open + 1, body_close) if toks[k].kind not in ('ws', 'comment', 'doc')]
        done_until = -1
        for q in range(1, len(bci) - 1):
            k = bci[q]
            if k <= done_until:
                continue
            if not (toks[k].text == '=' and toks[bci[q + 1]].text == '>' and toks[bci[q + 1]].pos == toks[k].pos + 1):
                continue
            if toks[bci[q - 1]].text in ('=', '<', '>', '!') and toks[bci[q - 1]].pos + 1 == toks[k].pos:
                continue
            # arm start: back to the previous `,` `{` or `}` at depth 0
            depth, r = 0, q - 1
            while r >= 0:
                tr = toks[bci[r]]
                if tr.kind == 'close':
                    if depth == 0 and tr.text == '}':
                        break
                    depth += 1
                elif tr.kind == 'open':
                    if depth == 0:
                        break
                    depth -= 1
                elif depth == 0 and tr.text == ',':
                    break
                r -= 1
            start = r + 1
            # top-level `if` and `|` inside the pattern region
            depth, if_at, bars = 0, None, []
            for r2 in range(start, q):
                t2 = toks[bci[r2]]
                if t2.kind == 'open':
                    depth += 1
                elif t2.kind == 'close':
                    depth -= 1
                elif depth == 0 and t2.kind == 'ident' and t2.text == 'if' and if_at is None:
                    if_at = r2
                elif depth == 0 and t2.text == '|' and if_at is None:
                    bars.append(r2)
            if if_at is None or not bars:
                continue
            # arm end
            nb = q + 2
            if toks[bci[nb]].kind == 'open' and toks[bci[nb]].text == '{':
                endk = rs.match_close(toks, bci[nb])
                e = [i for i, kk in enumerate(bci) if kk == endk][0]
                if e + 1 < len(bci) and toks[bci[e + 1]].text == ',':
                    e += 1
            else:
                depth, e = 0, nb
                while e < len(bci):
                    te = toks[bci[e]]
                    if te.kind == 'open':
                        depth += 1
                    elif te.kind == 'close':
                        if depth == 0:
                            e -= 1
                            break
                        depth -= 1
                    elif depth == 0 and te.text == ',':
                        break
                    e += 1
            cuts = [start - 1] + bars + [if_at]
            pats = [''.join(t.text for t in toks[bci[cuts[i] + 1 if i else start]:bci[cuts[i + 1]]]).strip() if i else ''.join(t.text for t in toks[bci[start]:bci[cuts[1]]]).strip() for i in range(len(cuts) - 1)]
            guard = ''.join(t.text for t in toks[bci[if_at] + 1:k]).strip()
            body_end_tok = bci[e]
            body_txt = ''.join(t.text for t in toks[bci[q + 1] + 1:body_end_tok + 1]).strip().rstrip(',')
            text = ' '.join('%s if %s => %s,' % (pt, guard, body_txt) for pt in pats)
            ed.replace(bci[start], body_end_tok, text)
            done_until = body_end_tok
            rules['X2e-arm'] = rules.get('X2e-arm', 0) + 1
            dropped.append('%s:%d match arm `%s | .. if ..` written as one guarded arm per alternative (X2e)' % (file, toks[bci[start]].line, pats[0]))
    # X2d: `//@desugar K` holds `RECV.method` (method one of map, and_then, filter) for an Option receiver and an inline closure:
    # every occurrence `RECV.method(|PAT| BODY)` is written as the match that std defines the combinator to be, so BODY is ordinary
    # code of the function.  The receiver text must occur (else the anchor is lost).
    if auto_lines:
        # X2d-auto (second attempt only, see verus.run_unit): a closure the unit's proof was not written for, handed to `.map` /
        # `.and_then` / `.filter`, is written as the match it abbreviates IF its receiver is an Option — which the type checker decides:
        # on any other receiver the rewritten text does not compile and the unit stays undecided.  The receiver is the postfix chain
        # (names, field accesses, calls, indexing, `?`) in front of the method.
        sections = dict(sections)
        body_all_a = [k for k in range(body_open + 1, body_close) if toks[k].kind not in ('ws', 'comment', 'doc')]
        have = set(' '.join(t.text for t in rs.tokenize(v) if t.kind not in ('ws', 'comment', 'doc')) for k, v in sections.items() if k.startswith('desugar '))
        nauto = 0
        for pp, k in enumerate(body_all_a):
            if toks[k].text not in ('|', '||') or toks[k].line not in auto_lines or pp < 3:
                continue
            mpos = None
            if toks[body_all_a[pp - 1]].text == '(' and toks[body_all_a[pp - 2]].text in ('map', 'and_then', 'filter') and toks[body_all_a[pp - 3]].text == '.':
                mpos = pp - 2
            elif toks[body_all_a[pp - 1]].text == ',':
                # `.map_or(DEFAULT, |..| ..)`: walk back over DEFAULT to the call's opening parenthesis
                rb, depth = pp - 2, 0
                while rb >= 2:
                    tb = toks[body_all_a[rb]]
                    if tb.kind == 'close':
                        depth += 1
                    elif tb.kind == 'open':
                        if depth == 0:
                            break
                        depth -= 1
                    rb -= 1
                if rb >= 2 and toks[body_all_a[rb]].text == '(' and toks[body_all_a[rb - 1]].text == 'map_or' and toks[body_all_a[rb - 2]].text == '.':
                    mpos = rb - 1
            if mpos is None:
                continue
            pp_m = mpos + 2          # position right after `METHOD (`
            r0 = mpos - 2
            while r0 >= 0:
                tr = toks[body_all_a[r0]]
                if tr.kind == 'close' and tr.text in (')', ']'):
                    # back over a balanced group
                    depth = 0
                    while r0 >= 0:
                        tt = toks[body_all_a[r0]]
                        if tt.kind == 'close':
                            depth += 1
                        elif tt.kind == 'open':
                            depth -= 1
                            if depth == 0:
                                break
                        r0 -= 1
                    r0 -= 1
                    continue
                if tr.kind == 'ident' and tr.text not in ('if', 'else', 'match', 'return', 'let', 'in', 'while', 'for', 'loop', 'move', 'mut', 'ref', 'as', 'break', 'continue'):
                    r0 -= 1
                    continue
                if tr.text in ('.', '?') or (tr.text == ':' and r0 >= 1 and toks[body_all_a[r0 - 1]].text == ':') or (tr.text == ':' and toks[body_all_a[r0 + 1]].text == ':'):
                    r0 -= 1
                    continue
                break
            start = r0 + 1
            if start > mpos - 2:
                continue
            anchor = ' '.join(toks[body_all_a[j]].text for j in range(start, mpos + 1))
            if anchor in have:
                continue
            have.add(anchor)
            sections['desugar zauto%03d optional' % nauto] = anchor
            nauto += 1
        if nauto:
            rules['X2d-auto'] = rules.get('X2d-auto', 0) + nauto
    # (two rewritings that start at the same token — a chain `a.find(..).map(..)` — nest correctly when the OUTER one, whose receiver text
    # is the longer, is applied first: hence longest anchor first; the key breaks ties)
    def _anchor_len(k):
        return len([t for t in rs.tokenize(sections[k]) if t.kind not in ('ws', 'comment', 'doc')])
    for dk in sorted((k for k in sections if k.startswith('desugar ')), key=lambda k: (-_anchor_len(k), k)):
        want_t = [t for t in rs.tokenize(sections[dk]) if t.kind not in ('ws', 'comment', 'doc')]
        # (trailing commas are layout: see X7)
        want = [t.text for i, t in enumerate(want_t) if not (t.text == ',' and i + 1 < len(want_t) and want_t[i + 1].kind == 'close')]
        if len(want) < 3 or want[-2] != '.' or want[-1] not in ('map', 'and_then', 'filter', 'any', 'all', 'find', 'find_map', 'map_or'):
            raise AnchorLost('template: //@%s must end in .map / .and_then / .filter / .any / .find / .find_map' % dk)
        method = want[-1]
        dk_words = dk.split()
        dk_id = dk_words[1]
        on_result = 'result' in dk_words[2:]      # `//@desugar K result`: the receiver is a Result (Ok / Err)
        body_all = [k for k in range(body_open + 1, body_close) if toks[k].kind not in ('ws', 'comment', 'doc')]
        body_ci = [k for i, k in enumerate(body_all) if not (toks[k].text == ',' and i + 1 < len(body_all) and toks[body_all[i + 1]].kind == 'close')]
        posm = {k: p for p, k in enumerate(body_ci)}
        hits = []
        for p0 in range(0, len(body_ci) - len(want) + 1):
            if toks[body_ci[p0]].text == want[0] and all(toks[body_ci[p0 + j]].text == want[j] for j in range(len(want))):
                hits.append(p0)
        # The rewriting preserves meaning, but the PROOF relies on it: a closure left in place makes obligations unprovable for a reason
        # that has nothing to do with the property.  So a directive that matches nothing loses the anchor (exit 2) — unless it is marked
        # `optional` (`//@desugar K optional`: a rewriting kept ready for a variant of the text, idle on the current one)
        if not hits and 'optional' not in dk_words_of(dk):
            raise AnchorLost('%s: //@%s matches nothing (receiver text changed?)' % (item_path, dk))
        for p0 in hits:
            pm = p0 + len(want) - 1            # code position of the method name
            # the callee may be a local name (`f`) or a function path (`PossibleValue::should_show_help`)
            pe = pm + 2
            if method in ('any', 'all') and pm + 3 < len(body_ci) and toks[body_ci[pm + 1]].text == '(' and toks[body_ci[pm + 2]].kind == 'ident':
                while pe + 3 < len(body_ci) and toks[body_ci[pe + 1]].text == ':' and toks[body_ci[pe + 2]].text == ':' and toks[body_ci[pe + 3]].kind == 'ident':
                    pe += 3
            if method in ('any', 'all') and pm + 3 < len(body_ci) and toks[body_ci[pm + 1]].text == '(' and toks[body_ci[pm + 2]].kind == 'ident' \
                    and pe + 1 < len(body_ci) and toks[body_ci[pe + 1]].text == ')':
                # X2f with a NAMED callee: `ITER.any(f)` / `ITER.all(f)` written as the loop calling `f` on each element
                kk = re.sub(r'\W', '_', dk_id)
                fname = ''.join(toks[body_ci[j]].text for j in range(pm + 2, pe + 1))
                if fname in ('exists', 'forall', 'choose', 'assert', 'assume', 'proof', 'spec'):
                    # a local named like a Verus keyword: the template renames its binding (`let exists =` -> `let cv_exists =`, X7)
                    fname = 'cv_' + fname
                init, hit = ('false', 'true') if method == 'any' else ('true', 'false')
                neg = '' if method == 'any' else '!'
                ed.ins_before(body_ci[p0], '({ let mut cv_any%s = %s; %s let mut cv_ait%s = (' % (kk, init, sections.get('any_before ' + dk_id, '').strip(), kk))
                ed.replace(body_ci[pm - 1], body_ci[pe + 1], ').into_iter(); while let Some(cv_item%s) = cv_ait%s.next() %s { %s if %s%s(cv_item%s) { cv_any%s = %s; break; } } %s cv_any%s })' % (
                    kk, kk, sections.get('any_inv ' + dk_id, '').strip(), sections.get('any_body ' + dk_id, '').strip(), neg, fname, kk, kk, hit,
                    sections.get('any_after ' + dk_id, '').strip(), kk))
                rules['X2f-' + method + '-named'] = rules.get('X2f-' + method + '-named', 0) + 1
                dropped.append('%s:%d Iterator::%s over a named local closure written as the loop it abbreviates (X2f)' % (file, toks[body_ci[pm]].line, method))
                continue
            if method == 'map_or':
                # X2d (map_or): `OPT.map_or(DEFAULT, |PAT| BODY)` written as `match OPT { Some(PAT) => BODY, None => DEFAULT }`
                if pm + 2 >= len(body_ci) or toks[body_ci[pm + 1]].text != '(':
                    raise AnchorLost('%s: //@%s: not a call' % (item_path, dk))
                call_open = body_ci[pm + 1]
                call_close = rs.match_close(toks, call_open)
                qd, depth = pm + 2, 0
                while qd < len(body_ci) and not (toks[body_ci[qd]].text == ',' and depth == 0):
                    if toks[body_ci[qd]].kind == 'open':
                        depth += 1
                    elif toks[body_ci[qd]].kind == 'close':
                        depth -= 1
                    qd += 1
                if qd + 1 >= len(body_ci) or body_ci[qd] >= call_close or toks[body_ci[qd + 1]].text != '|':
                    raise AnchorLost('%s: //@%s: map_or without an inline closure' % (item_path, dk))
                default_src = ''.join(toks[j].text for j in range(body_ci[pm + 2], body_ci[qd]))
                qp = qd + 2
                while qp < len(body_ci) and toks[body_ci[qp]].text != '|':
                    qp += 1
                pat = ' '.join(''.join(t.text for t in toks[body_ci[qd + 1] + 1:body_ci[qp]]).split())
                ed.ins_before(body_ci[p0], '(match (')
                ed.replace(body_ci[pm - 1], body_ci[qp], ') { Some(%s) => (' % pat)
                ed.replace(call_close, call_close, '), None => (%s) })' % default_src)
                rules['X2d-map_or'] = rules.get('X2d-map_or', 0) + 1
                dropped.append('%s:%d Option::map_or with an inline closure written as the match it abbreviates (X2d)' % (file, toks[body_ci[pm]].line))
                continue
            if pm + 2 >= len(body_ci) or toks[body_ci[pm + 1]].text != '(' or toks[body_ci[pm + 2]].text != '|':
                raise AnchorLost('%s: //@%s: not followed by an inline closure' % (item_path, dk))
            call_open = body_ci[pm + 1]
            call_close = rs.match_close(toks, call_open)
            q = pm + 3
            depth = 0
            while q < len(body_ci) and not (toks[body_ci[q]].text == '|' and depth == 0):
                if toks[body_ci[q]].kind == 'open':
                    depth += 1
                elif toks[body_ci[q]].kind == 'close':
                    depth -= 1
                q += 1
            if q >= len(body_ci) or body_ci[q] >= call_close:
                raise AnchorLost('%s: //@%s: closure parameters not found' % (item_path, dk))
            pat = ' '.join(''.join(t.text for t in toks[body_ci[pm + 2] + 1:body_ci[q]]).split())
            if ':' in pat:
                raise AnchorLost('%s: //@%s: typed closure parameter' % (item_path, dk))
            if method == 'all':
                # X2f: `ITER.all(|PAT| BODY)` written as the loop std defines it to be (stop at the first element for which the closure is false)
                kk = re.sub(r'\W', '_', dk_id)
                ed.ins_before(body_ci[p0], '({ let mut cv_any%s = true; %s let mut cv_ait%s = (' % (kk, sections.get('any_before ' + dk_id, '').strip(), kk))
                ed.replace(body_ci[pm - 1], body_ci[q], ').into_iter(); while let Some(%s) = cv_ait%s.next() %s { %s if !(' % (
                    pat, kk, sections.get('any_inv ' + dk_id, '').strip(), sections.get('any_body ' + dk_id, '').strip()))
                ed.replace(call_close, call_close, ') { cv_any%s = false; break; } } %s cv_any%s })' % (kk, sections.get('any_after ' + dk_id, '').strip(), kk))
                rules['X2f-all'] = rules.get('X2f-all', 0) + 1
                dropped.append('%s:%d Iterator::all with an inline closure written as the loop it abbreviates (X2f)' % (file, toks[body_ci[pm]].line))
                continue
            if method == 'any':
                # X2f: `ITER.any(|PAT| BODY)` written as the loop std defines it to be (Iterator::any: stop at the first element for
                # which the closure is true); the ghost code and the loop contract come from `//@any_before K`, `//@any_inv K`,
                # `//@any_body K`
                kk = re.sub(r'\W', '_', dk_id)
                ed.ins_before(body_ci[p0], '({ let mut cv_any%s = false; %s let mut cv_ait%s = (' % (kk, sections.get('any_before ' + dk_id, '').strip(), kk))
                ed.replace(body_ci[pm - 1], body_ci[q], ').into_iter(); while let Some(%s) = cv_ait%s.next() %s { %s if ' % (
                    pat, kk, sections.get('any_inv ' + dk_id, '').strip(), sections.get('any_body ' + dk_id, '').strip()))
                ed.replace(call_close, call_close, ' { cv_any%s = true; break; } } %s cv_any%s })' % (kk, sections.get('any_after ' + dk_id, '').strip(), kk))
                rules['X2f-any'] = rules.get('X2f-any', 0) + 1
                dropped.append('%s:%d Iterator::any with an inline closure written as the loop it abbreviates (X2f)' % (file, toks[body_ci[pm]].line))
                continue
            if method == 'filter' and 'count' in dk_words[2:]:
                # X2f (count): `ITER.filter(|PAT| BODY).count()` written as the counting loop it abbreviates
                kk = re.sub(r'\W', '_', dk_id)
                after = [k for k in body_ci if k > call_close][:4]
                if len(after) < 4 or [toks[k].text for k in after] != ['.', 'count', '(', ')']:
                    continue        # another `.filter(..)` on the same receiver, not the counted one
                ed.ins_before(body_ci[p0], '({ let mut cv_any%s: usize = 0; %s let mut cv_ait%s = (' % (kk, sections.get('any_before ' + dk_id, '').strip(), kk))
                ed.replace(body_ci[pm - 1], body_ci[q], ').into_iter(); while let Some(cv_item%s) = cv_ait%s.next() %s { %s if { let %s = &cv_item%s; ' % (
                    kk, kk, sections.get('any_inv ' + dk_id, '').strip(), sections.get('any_body ' + dk_id, '').strip(), pat, kk))
                ed.replace(call_close, after[3], ' } { cv_any%s = cv_any%s + 1; } } %s cv_any%s })' % (kk, kk, sections.get('any_after ' + dk_id, '').strip(), kk))
                rules['X2f-count'] = rules.get('X2f-count', 0) + 1
                dropped.append('%s:%d Iterator::filter(..).count() with an inline closure written as the loop it abbreviates (X2f)' % (file, toks[body_ci[pm]].line))
                continue
            if method == 'filter' and 'find_map' in dk_words[2:]:
                # X2f (filter + find_map): `ITER.filter(|P1| B1).find_map(|P2| B2)` written as one loop — an element is offered to the
                # second closure only when the first one (given a reference) holds
                kk = re.sub(r'\W', '_', dk_id)
                after = [k for k in body_ci if k > call_close][:4]
                if len(after) < 4 or [toks[k].text for k in after[:3]] != ['.', 'find_map', '('] or toks[after[3]].text != '|':
                    continue
                fm_open = after[2]
                fm_close = rs.match_close(toks, fm_open)
                q2 = posm[after[3]] + 1
                depth2 = 0
                while q2 < len(body_ci) and not (toks[body_ci[q2]].text == '|' and depth2 == 0):
                    if toks[body_ci[q2]].kind == 'open':
                        depth2 += 1
                    elif toks[body_ci[q2]].kind == 'close':
                        depth2 -= 1
                    q2 += 1
                pat2 = ' '.join(''.join(t.text for t in toks[after[3] + 1:body_ci[q2]]).split())
                ed.ins_before(body_ci[p0], '({ let mut cv_any%s = None; %s let mut cv_ait%s = (' % (kk, sections.get('any_before ' + dk_id, '').strip(), kk))
                ed.replace(body_ci[pm - 1], body_ci[q], ').into_iter(); while let Some(cv_item%s) = cv_ait%s.next() %s { %s if { let %s = &cv_item%s; ' % (
                    kk, kk, sections.get('any_inv ' + dk_id, '').strip(), sections.get('any_body ' + dk_id, '').strip(), pat, kk))
                ed.replace(call_close, body_ci[q2], ' } { let %s = cv_item%s; if let Some(cv_v%s) = ' % (pat2, kk, kk))
                ed.replace(fm_close, fm_close, ' { cv_any%s = Some(cv_v%s); break; } } } %s cv_any%s })' % (kk, kk, sections.get('any_after ' + dk_id, '').strip(), kk))
                rules['X2f-filter_find_map'] = rules.get('X2f-filter_find_map', 0) + 1
                dropped.append('%s:%d Iterator::filter(..).find_map(..) with inline closures written as the loop it abbreviates (X2f)' % (file, toks[body_ci[pm]].line))
                continue
            if method == 'find_map':
                # X2f (find_map): `ITER.find_map(|PAT| BODY)` written as the loop std defines it to be (the first Some the closure yields)
                kk = re.sub(r'\W', '_', dk_id)
                ed.ins_before(body_ci[p0], '({ let mut cv_any%s = None; %s let mut cv_ait%s = (' % (kk, sections.get('any_before ' + dk_id, '').strip(), kk))
                ed.replace(body_ci[pm - 1], body_ci[q], ').into_iter(); while let Some(%s) = cv_ait%s.next() %s { %s if let Some(cv_v%s) = ' % (
                    pat, kk, sections.get('any_inv ' + dk_id, '').strip(), sections.get('any_body ' + dk_id, '').strip(), kk))
                ed.replace(call_close, call_close, ' { cv_any%s = Some(cv_v%s); break; } } %s cv_any%s })' % (kk, kk, sections.get('any_after ' + dk_id, '').strip(), kk))
                rules['X2f-find_map'] = rules.get('X2f-find_map', 0) + 1
                dropped.append('%s:%d Iterator::find_map with an inline closure written as the loop it abbreviates (X2f)' % (file, toks[body_ci[pm]].line))
                continue
            if method == 'find' and not on_result and sections.get('any_inv ' + dk_id) is not None:
                # X2f (find): `ITER.find(|PAT| BODY)` written as the loop std defines it to be (Iterator::find: the first element for
                # which the closure — called with a reference to it — is true).  Chosen over the Option::filter reading of `.find` by
                # the presence of an `//@any_inv K` section
                kk = re.sub(r'\W', '_', dk_id)
                ed.ins_before(body_ci[p0], '({ let mut cv_any%s = None; %s let mut cv_ait%s = (' % (kk, sections.get('any_before ' + dk_id, '').strip(), kk))
                ed.replace(body_ci[pm - 1], body_ci[q], ').into_iter(); while let Some(cv_item%s) = cv_ait%s.next() %s { %s if { let %s = &cv_item%s; ' % (
                    kk, kk, sections.get('any_inv ' + dk_id, '').strip(), sections.get('any_body ' + dk_id, '').strip(), pat, kk))
                ed.replace(call_close, call_close, ' } { cv_any%s = Some(cv_item%s); break; } } %s cv_any%s })' % (kk, kk, sections.get('any_after ' + dk_id, '').strip(), kk))
                rules['X2f-find'] = rules.get('X2f-find', 0) + 1
                dropped.append('%s:%d Iterator::find with an inline closure written as the loop it abbreviates (X2f)' % (file, toks[body_ci[pm]].line))
                continue
            ed.ins_before(body_ci[p0], '(match (')
            if method == 'map' and on_result:
                ed.replace(body_ci[pm - 1], body_ci[q], ') { Ok(%s) => Ok(' % pat)
                ed.replace(call_close, call_close, '), Err(cv_e) => Err(cv_e) })')
            elif method == 'map':
                ed.replace(body_ci[pm - 1], body_ci[q], ') { Some(%s) => Some(' % pat)
                ed.replace(call_close, call_close, '), None => None })')
            elif method == 'and_then':
                ed.replace(body_ci[pm - 1], body_ci[q], ') { Some(%s) => (' % pat)
                ed.replace(call_close, call_close, '), None => None })')
            else:
                m_ref = re.fullmatch(r'&\s*([A-Za-z_][A-Za-z0-9_]*)', pat)
                if m_ref:
                    # `|&x|`: the reference pattern (outside Verus) applied to `&cv_v` binds a copy of cv_v
                    ed.replace(body_ci[pm - 1], body_ci[q], ') { Some(cv_v) => if { let %s = cv_v; ' % m_ref.group(1))
                else:
                    ed.replace(body_ci[pm - 1], body_ci[q], ') { Some(cv_v) => if { let %s = &cv_v; ' % pat)
                ed.replace(call_close, call_close, ' } { Some(cv_v) } else { None }, None => None })')
            rules['X2d-' + method] = rules.get('X2d-' + method, 0) + 1
            dropped.append('%s:%d Option::%s with an inline closure written as the match it abbreviates (X2d)' % (file, toks[body_ci[pm]].line, method))
    # X7 statement abstraction: `//@replace K` holds the exact source text of one or more statements (compared
    # token by token, whitespace and comments ignored); `//@with K` the environment call that stands for them.
    # The replaced text is an ASSUMED part of the function (listed in evidence); a change to it loses the anchor.
    repl_keys = sorted(k for k in sections if k.startswith('replace ') or k.startswith('replace_all '))
    for rk in repl_keys:
        kk = rk.split()[1]
        many = rk.startswith('replace_all ')
        if 'with ' + kk not in sections:
            raise AnchorLost('template: //@replace %s without //@with %s' % (kk, kk))
        want_t = [t for t in rs.tokenize(sections[rk]) if t.kind not in ('ws', 'comment', 'doc')]
        # a trailing comma (`,` right before a closing delimiter) is layout, not text: rustfmt adds and removes it with the line breaks
        want = [t.text for i, t in enumerate(want_t) if not (t.text == ',' and i + 1 < len(want_t) and want_t[i + 1].kind == 'close')]
        # `$1`, `$2`, .. in the pattern are wildcards for one balanced run of tokens (a call argument): the replacement may
        # use them, so the arguments of a replaced call stay the real text
        pat = []
        j = 0
        while j < len(want):
            if want[j] == '$' and j + 1 < len(want) and want[j + 1].isdigit():
                pat.append(('w', int(want[j + 1])))
                j += 2
            else:
                pat.append(('t', want[j]))
                j += 1
        body_all = [k for k in range(body_open + 1, body_close) if toks[k].kind not in ('ws', 'comment', 'doc')]
        body_ci = [k for i, k in enumerate(body_all) if not (toks[k].text == ',' and i + 1 < len(body_all) and toks[body_all[i + 1]].kind == 'close')]

        def match_at(p0):
            """-> (end code position inclusive, captures {n: (first_ci, last_ci)}) or None"""
            q = p0
            caps = {}
            for pi, (kind, v) in enumerate(pat):
                if kind == 't':
                    if q >= len(body_ci) or toks[body_ci[q]].text != v:
                        return None
                    q += 1
                else:
                    # wildcard: up to (not including) the next literal token at depth 0
                    if pi + 1 >= len(pat) or pat[pi + 1][0] != 't':
                        return None
                    stop = pat[pi + 1][1]
                    if pi == 0:
                        # a leading wildcard stands for exactly one token (an identifier): otherwise every earlier start would match too
                        if q + 1 >= len(body_ci) or toks[body_ci[q]].kind != 'ident' or toks[body_ci[q + 1]].text != stop:
                            return None
                        caps[v] = (q, q)
                        q += 1
                        continue
                    depth, start = 0, q
                    while q < len(body_ci):
                        tq = toks[body_ci[q]]
                        if depth == 0 and tq.text == stop:
                            break
                        if tq.kind == 'open':
                            depth += 1
                        elif tq.kind == 'close':
                            depth -= 1
                            if depth < 0:
                                return None
                        q += 1
                    if q >= len(body_ci) or q == start:
                        return None
                    caps[v] = (start, q - 1)
            return q - 1, caps

        hits = []
        for p0 in range(0, len(body_ci)):
            if pat[0][0] == 't' and toks[body_ci[p0]].text != pat[0][1]:
                continue
            m = match_at(p0)
            if m is not None:
                hits.append((p0, m[0], m[1]))
        if len(hits) == 0 and 'optional' in rk.split()[2:]:
            # `//@replace K optional`: the statement may be ABSENT (then nothing stands for it and the obligations that needed it fail).
            # Only for a function whose splice line pins its number of loops (`loops=N`), so that a rewriting of the statement as a
            # loop the proof has no invariant for loses the anchor instead of failing an obligation.
            rules['X7-optional-absent'] = rules.get('X7-optional-absent', 0) + 1
            continue
        if (len(hits) != 1 and not many) or len(hits) == 0:
            raise AnchorLost('%s: //@replace %s matches %d times (statement text changed?)' % (item_path, kk, len(hits)))
        for p0, pend, caps in hits:
            a_idx, b_idx = body_ci[p0], body_ci[pend]
            text = sections['with ' + kk].strip()
            for n, (c0, c1) in caps.items():
                cap_src = ''.join(t.text for t in toks[body_ci[c0]:body_ci[c1] + 1])
                text = text.replace('$%d' % n, cap_src)
            ed.replace(a_idx, b_idx, text)
            if toks[a_idx].text in ('debug_assert', 'debug_assert_eq', 'debug_assert_ne') and text.startswith('proof {') and 'assert(' in text \
                    and 'assume(' not in text:
                # the function's own debug assertion written as a proof obligation: checked, not dropped and not assumed
                rules['X7-debug_assert_proved'] = rules.get('X7-debug_assert_proved', 0) + 1
                pre = '%s:%d %s' % (file, toks[a_idx].line, toks[a_idx].text)
                gone = [d for d in dropped if d.startswith(pre)]
                for d in gone:
                    dropped.remove(d)
                    rules['X1b-debug_assert'] = rules.get('X1b-debug_assert', 0) - 1
                if rules.get('X1b-debug_assert') == 0:
                    del rules['X1b-debug_assert']
                continue
            rules['X7-replace'] = rules.get('X7-replace', 0) + 1
            dropped.append('%s:%d statement replaced by an assumed environment call (X7): %s' % (
                file, toks[a_idx].line, ' '.join(sections[rk].split())[:300]))
    for key, text in sections.items():
        if key.startswith('replace ') or key.startswith('replace_all ') or key.startswith('with ') or key.startswith('desugar ') or key.startswith('any_') \
                or key.startswith('lift_') or key in ('sig', 'sig_was'):
            continue
        if lift_info is not None and key in ('spec', 'attr') or (lift_info is not None and key.startswith('ret ')):
            continue
        if not text.strip() and key != 'spec' and not key.startswith('ret '):
            continue
        used += 1
        if key == 'attr':
            ed.ins_before(item.kw_idx if not _has_quals(toks, item) else _first_qual(toks, item), text)
        elif key == 'spec':
            t = text
            if canary:
                t = _add_false(t)
            ed.ins_before(body_open, '\n' + t)
        elif key.startswith('ret '):
            # X5b: name the return value (`-> T` becomes `-> (name: T)`); ghost binder only
            name = key.split()[1]
            k = item.kw_idx
            arrow = None
            while k < body_open:
                if toks[k].kind == 'open':
                    k = rs.match_close(toks, k) + 1
                    continue
                if toks[k].kind == 'punct' and toks[k].text == '-' and toks[k + 1].kind == 'punct' and toks[k + 1].text == '>' and toks[k + 1].pos == toks[k].pos + 1:
                    arrow = k + 1
                    break
                k += 1
            if arrow is None:
                raise AnchorLost('%s: no return type to name' % item_path)
            endk = body_open
            k = arrow + 1
            while k < body_open:
                if toks[k].kind == 'ident' and toks[k].text == 'where':
                    endk = k
                    break
                k += 1
            # last code token of the type
            last = endk - 1
            while toks[last].kind in ('ws', 'comment', 'doc'):
                last -= 1
            ed.ins_after(arrow, ' (' + name + ':')
            ed.ins_after(last, ')')
        elif key == 'body_start':
            ed.ins_after(body_open, '\n' + text)
        elif key == 'body_end':
            ed.ins_before(body_close, text)
        elif key.startswith('loop '):
            _, n, what = key.split()
            n = int(n)
            if n >= len(loops):
                raise AnchorLost('%s: loop %d not found (function has %d loops)' % (item_path, n, len(loops)))
            kw, lopen, lclose = loops[n]
            if what == 'binder':
                if toks[kw].text != 'for':
                    raise AnchorLost('%s: loop %d is not a for loop' % (item_path, n))
                # insert `<binder>:` after the `in` keyword of the for header
                k = kw + 1
                depth_ok = None
                while k < lopen:
                    if toks[k].kind == 'open':
                        k = rs.match_close(toks, k) + 1
                        continue
                    if toks[k].kind == 'ident' and toks[k].text == 'in':
                        depth_ok = k
                        break
                    k += 1
                if depth_ok is None:
                    raise AnchorLost('for-loop header without `in`')
                ed.ins_after(depth_ok, ' ' + text.strip() + ':')
            elif what == 'before':
                ed.ins_before(kw, text)
            elif what == 'inv':
                ed.ins_before(lopen, '\n' + text)
            elif what == 'body_start':
                ed.ins_after(lopen, '\n' + text)
            elif what == 'iter':
                pass        # handled with the loop header (X2c)
            elif what == 'body_first':
                # ghost code that must run for EVERY element the iterator yields, ahead of the tests rule X2h places at the body's start
                ed.after.setdefault(lopen, []).insert(0, '\n' + text)
            elif what == 'body_end':
                ed.ins_before(lclose, text)
            elif what == 'after':
                ed.ins_after(lclose, '\n' + text)
            else:
                raise AnchorLost('unknown loop section %s' % what)
        else:
            raise AnchorLost('unknown section %s' % key)
    if used:
        rules['X5-ghost'] = rules.get('X5-ghost', 0) + used
    if lift_info is not None:
        cl_open, cl_close, lname, sig, lift_braces, cpat = lift_info
        spec = sections.get('spec', '')
        if canary:
            spec = _add_false(spec)
        head = (sections.get('attr', '').rstrip() + '\n' if sections.get('attr', '').strip() else '') + sig + '\n' + spec.rstrip()
        lines, lmap = ed.render(cl_open, cl_close, file)
        hl = head.split('\n')
        if lift_braces:
            hl = hl + ['{' + (' ' + cpat if cpat else '')]
            lines, lmap = lines + ['}'], lmap + [None]
        lines = hl + lines
        lmap = [None] * len(hl) + lmap
    else:
        lines, lmap = ed.render(item.start_idx, item.end_idx, file)
    # closures of the REAL text that no rule rewrote or replaced: Verus accepts some of them (e.g. inside Option::map) but cannot see
    # through them, so an obligation of a function that still holds one may be unprovable for reasons unrelated to the property
    closures_left = []
    code = [k for k in range(body_open + 1, body_close) if toks[k].kind not in ('ws', 'comment', 'doc')]
    for p, k in enumerate(code):
        if toks[k].text not in ('|', '||') or k in ed.repl or p == 0:
            continue
        prev = toks[code[p - 1]]
        if prev.text in ('(', ',', '=', '{', ';', 'move', 'return') or (prev.text == '>' and p >= 2 and toks[code[p - 2]].text == '=' and toks[code[p - 2]].pos + 1 == prev.pos):
            closures_left.append(toks[k].line)
    info = {
        'file': file, 'item': item_path, 'trait': trait,
        'line_start': toks[item.kw_idx].line, 'line_end': toks[item.end_idx].line,
        'loops': len(loops), 'closures_left': closures_left,
    }
    if lift_info is not None:
        info.update(item=item_path + '::' + lift_info[2], line_start=toks[lift_info[0]].line, line_end=toks[lift_info[1]].line, lifted_closure=True)
    return lines, lmap, info


def _has_quals(toks, item):
    return _first_qual(toks, item) != item.kw_idx


def _first_qual(toks, item):
    """first token of the fn header after attributes/docs (qualifiers like const/unsafe), vis is blanked anyway"""
    k = item.kw_idx
    first = k
    j = k - 1
    while j >= item.start_idx:
        t = toks[j]
        if t.kind in ('ws', 'comment'):
            j -= 1
            continue
        if t.kind == 'ident' and t.text in ('const', 'unsafe', 'async', 'extern'):
            first = j
            j -= 1
            continue
        break
    return first


def dk_words_of(dk):
    return dk.split()[2:]


def _add_false(spec_text):
    """canary: make the postcondition unsatisfiable by appending `false`"""
    t = spec_text.rstrip()
    if t.endswith(','):
        t = t[:-1]
    m_ens = None
    for m_ens in re.finditer(r'\bensures\b', t):
        pass
    if m_ens is not None:
        # a function-level `decreases` clause follows the postconditions: `false` belongs in front of it
        m_dec = re.search(r'\n\s*decreases\b', t[m_ens.end():])
        if m_dec:
            cut = m_ens.end() + m_dec.start()
            head = t[:cut].rstrip()
            if head.endswith(','):
                head = head[:-1]
            return head + ',\n        false,' + t[cut:] + ',\n'
        return t + ',\n        false,\n'
    m_dec = re.search(r'(^|\n)\s*decreases\b', t)
    if m_dec:
        return t[:m_dec.start()] + '\n    ensures false,' + t[m_dec.start():] + ',\n'
    return t + '\n    ensures false,\n'


def copy_item(repo, file, name, opts=(), rules=None, nth=0, trait=None):
    path = os.path.join(repo, file)
    if not os.path.exists(path):
        raise AnchorLost('file missing: %s' % file)
    toks = rs.tokenize(open(path).read())
    try:
        item, _ = rs.find_item(toks, name, trait, nth)
    except rs.ScanError as e:
        raise AnchorLost(str(e))
    rules = {} if rules is None else rules
    ed = _Edit(toks)
    _apply_rules(ed, toks, item.start_idx, item.end_idx, repo, opts, rules, [], file)
    if item.kind == 'const':
        # X3: `const X: &str` -> `&'static str` (elision is not applied inside verus!)
        for k in range(item.kw_idx, item.end_idx):
            if toks[k].kind == 'punct' and toks[k].text == '&':
                nk = rs._next_code(toks, k + 1, item.end_idx)
                if nk is not None and toks[nk].kind != 'lifetime':
                    ed.ins_after(k, "'static ")
                    rules['X3-static'] = rules.get('X3-static', 0) + 1
    lines, lmap = ed.render(item.start_idx, item.end_idx, file)
    info = {'file': file, 'item': name, 'line_start': toks[item.kw_idx].line, 'line_end': toks[item.end_idx].line}
    return lines, lmap, info


def struct_fields(repo, file, struct, fields, nth=0):
    """re-declare `struct` with only `fields`; field types copied from the real declaration"""
    path = os.path.join(repo, file)
    if not os.path.exists(path):
        raise AnchorLost('file missing: %s' % file)
    toks = rs.tokenize(open(path).read())
    try:
        item, _ = rs.find_item(toks, struct, None, nth)
    except rs.ScanError as e:
        raise AnchorLost(str(e))
    if item.kind != 'struct' or item.body_open is None:
        raise AnchorLost('%s is not a braced struct' % struct)
    # header: from kw to body_open (generics kept)
    header = ''.join(t.text for t in toks[item.kw_idx:item.body_open]).strip()
    # fields
    k = item.body_open + 1
    close = item.end_idx
    decl = {}
    cur = []
    depth_angle = 0
    def flush(cur):
        txt = ''.join(t.text for t in cur if t.kind not in ('doc', 'comment')).strip()
        txt = re.sub(r'#\[[^\]]*\]\s*', '', txt)
        txt = re.sub(r'^pub(\([^)]*\))?\s+', '', txt)
        m = re.match(r'([A-Za-z_][A-Za-z0-9_]*)\s*:\s*(.*)$', txt, re.S)
        if m:
            decl[m.group(1)] = ' '.join(m.group(2).split())
    while k < close:
        t = toks[k]
        if t.kind == 'open':
            c = rs.match_close(toks, k)
            cur.extend(toks[k:c + 1])
            k = c + 1
            continue
        if t.kind == 'punct' and t.text == '<':
            depth_angle += 1
        if t.kind == 'punct' and t.text == '>':
            depth_angle -= 1
        if t.kind == 'punct' and t.text == ',' and depth_angle == 0:
            flush(cur)
            cur = []
        else:
            cur.append(t)
        k += 1
    flush(cur)
    out = [header + ' {']
    for f in fields:
        if f not in decl:
            raise AnchorLost('struct %s has no field %s' % (struct, f))
        out.append('    %s: %s,' % (f, decl[f]))
    out.append('}')
    info = {'file': file, 'item': struct, 'fields': {f: decl[f] for f in fields}, 'line_start': toks[item.kw_idx].line}
    return out, [None] * len(out), info


def build(repo, template_path, canary=False, auto=False) -> SpliceResult:
    tlines = open(template_path).read().split('\n')
    out, lmap = [], []
    functions, rules, dropped = [], {}, []
    canary_points = 0
    main_seen = 0
    i = 0
    while i < len(tlines):
        line = tlines[i]
        m = _DIRECTIVE.match(line)
        if not m:
            out.append(line)
            lmap.append(None)
            i += 1
            continue
        d, rest = m.group(1), m.group(2)
        kv = _kv(rest)
        opts = tuple(kv.get('opts', '').split(',')) if kv.get('opts') else ()
        if d == 'splice':
            sections = {}
            cur = None
            i += 1
            while i < len(tlines):
                m2 = _DIRECTIVE.match(tlines[i])
                if m2:
                    if m2.group(1) == 'end':
                        break
                    cur = (m2.group(1) + m2.group(2)).strip()
                    cur = ' '.join(cur.split())
                    sections[cur] = ''
                else:
                    if cur is None:
                        if tlines[i].strip():
                            raise AnchorLost('template: text before first section in splice block (line %d)' % (i + 1))
                    else:
                        sections[cur] += tlines[i] + '\n'
                i += 1
            if i >= len(tlines):
                raise AnchorLost('template: unterminated splice block')
            i += 1
            is_main = ('canary' in kv or kv.get('role') == 'main')
            if is_main:
                main_seen += 1
            if canary is True:
                is_canary_target = is_main
            elif canary is False or canary is None:
                is_canary_target = False
            else:
                is_canary_target = is_main and (main_seen - 1) == int(canary)
            if is_canary_target and 'spec' not in sections:
                sections['spec'] = ''
            if is_main:
                canary_points += 1
            if auto:
                # second attempt: first find the closures no rule rewrote, then let X2d-auto try them
                _l, _m, info0 = splice_fn(repo, kv['file'], kv['item'], sections, kv.get('trait'), int(kv.get('nth', 0)),
                                          opts, is_canary_target, {}, [], lift=('lift' in kv), nth_explicit=('nth' in kv))
                auto_lines = set(info0.get('closures_left') or [])
            else:
                auto_lines = None
            lines, lm, info = splice_fn(repo, kv['file'], kv['item'], sections, kv.get('trait'), int(kv.get('nth', 0)),
                                        opts, is_canary_target, rules, dropped, lift=('lift' in kv), auto_lines=auto_lines, nth_explicit=('nth' in kv))
            info['role'] = kv.get('role', 'helper')
            info['closures_ok'] = int(kv.get('closures_ok', 0))
            if 'loops' in kv and 'lift' not in kv and info['loops'] != int(kv['loops']):
                raise AnchorLost('%s: the function now has %d loops, the unit was written for %s' % (kv['item'], info['loops'], kv['loops']))
            if any(k.startswith('replace ') and 'optional' in k.split()[2:] for k in sections) and 'loops' not in kv:
                raise AnchorLost('template: //@replace .. optional needs loops=N on the //@splice line of %s' % kv['item'])
            functions.append(info)
            out.append('// @src %s:%d %s' % (info['file'], info['line_start'], info['item']))
            lmap.append(None)
            out.extend(lines)
            lmap.extend(lm)
            continue
        if d == 'item':
            lines, lm, info = copy_item(repo, kv['file'], kv['item'], opts, rules, int(kv.get('nth', 0)))
            out.append('// @src %s:%d %s (item copied verbatim)' % (info['file'], info['line_start'], info['item']))
            lmap.append(None)
            out.extend(lines)
            lmap.extend(lm)
            info['role'] = 'item'
            functions.append(info)
            i += 1
            continue
        if d == 'fields':
            pre = kv.get('pre', '')
            lines, lm, info = struct_fields(repo, kv['file'], kv['struct'], kv['fields'].split(','), int(kv.get('nth', 0)))
            out.append('// @src %s:%d struct %s re-declared with fields %s (X6)' % (info['file'], info['line_start'], info['item'], kv['fields']))
            lmap.append(None)
            out.extend(lines)
            lmap.extend(lm)
            info['role'] = 'fields'
            functions.append(info)
            rules['X6-fields'] = rules.get('X6-fields', 0) + 1
            i += 1
            continue
        if d == 'include':
            inc = os.path.join(os.path.dirname(os.path.dirname(os.path.abspath(__file__))), rest.strip())
            for l in open(inc).read().split('\n'):
                out.append(l)
                lmap.append(None)
            i += 1
            continue
        if d == 'assert_text':
            # environment constant checked syntactically: the real item's text (X3 applied, whitespace-normalised)
            # must equal the text after `text=`; otherwise the unit is undecided (anchor-lost), never an alarm
            want = rest.split('text=', 1)[1].strip()
            lines, lm, info = copy_item(repo, kv['file'], kv['item'], opts, {}, int(kv.get('nth', 0)), kv.get('trait'))
            def _norm(txt):
                # collapse whitespace OUTSIDE string literals only (the width of "  " is what such a constant is about)
                toks_n = [t for t in rs.tokenize(txt) if t.kind not in ('ws', 'comment', 'doc')]
                return ' '.join(t.text for t in toks_n)
            got = _norm('\n'.join(lines))
            if got != _norm(want):
                raise AnchorLost('assert_text: %s in %s is now `%s`, the unit assumes `%s`' % (kv['item'], kv['file'], got, want))
            out.append('// @checked %s:%d `%s`' % (info['file'], info['line_start'], got))
            lmap.append(None)
            rules['X6-const-checked'] = rules.get('X6-const-checked', 0) + 1
            i += 1
            continue
        raise AnchorLost('template: unknown directive //@%s (line %d)' % (d, i + 1))
    dropped = list(dict.fromkeys(dropped))      # (a function spliced more than once — rule X2g — reports its rewritings once)
    return SpliceResult('\n'.join(out), lmap, functions, rules, dropped, canary_points)
