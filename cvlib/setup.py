"""setup_cmd: create scratch directories and check that the tools are on PATH (offline)."""
import os, shutil, subprocess, sys
ROOT = os.path.dirname(os.path.dirname(os.path.abspath(__file__)))


def main():
    for d in ('build', 'evidence', 'replays'):
        os.makedirs(os.path.join(ROOT, d), exist_ok=True)
    ok = True
    for tool, args in (('verus', ['--version']), ('cargo', ['kani', '--version']), ('rsync', ['--version'])):
        if shutil.which(tool) is None:
            print('missing tool: %s' % tool)
            ok = False
            continue
        try:
            out = subprocess.run([tool] + args, capture_output=True, text=True, timeout=120, env=dict(os.environ, CARGO_NET_OFFLINE='true'))
            print('%s: %s' % (tool, (out.stdout + out.stderr).strip().split('\n')[0]))
        except Exception as e:
            print('%s: %r' % (tool, e))
            ok = False
    return 0 if ok else 1


if __name__ == '__main__':
    sys.exit(main())
