"""Small Rust token scanner: enough lexical structure to find items by path,
copy their text verbatim, and locate the syntactic anchor points (signature end,
n-th loop header/body) where ghost text may be inserted.  It never rewrites
executable tokens; see splice.py for the (fixed) rewriting rules."""
from __future__ import annotations
import re
from dataclasses import dataclass


class ScanError(Exception):
    pass


@dataclass
class Tok:
    kind: str   # ident, punct, open, close, str, char, lifetime, num, comment, doc, ws
    text: str
    pos: int    # byte offset in source
    line: int   # 1-based


_IDENT = re.compile(r'[A-Za-z_][A-Za-z0-9_]*')
_NUM = re.compile(r'[0-9][0-9A-Za-z_]*(\.[0-9][0-9A-Za-z_]*)?')
_WS = re.compile(r'\s+')
_RAWSTR = re.compile(r'b?r(#*)"')


def tokenize(src: str) -> list[Tok]:
    toks: list[Tok] = []
    i, n, line = 0, len(src), 1

    def emit(kind, j):
        nonlocal i, line
        text = src[i:j]
        toks.append(Tok(kind, text, i, line))
        line += text.count('\n')
        i = j

    while i < n:
        c = src[i]
        m = _WS.match(src, i)
        if m:
            emit('ws', m.end())
            continue
        if src.startswith('//', i):
            j = src.find('\n', i)
            j = n if j < 0 else j
            kind = 'doc' if (src.startswith('///', i) and not src.startswith('////', i)) or src.startswith('//!', i) else 'comment'
            emit(kind, j)
            continue
        if src.startswith('/*', i):
            depth, j = 1, i + 2
            while j < n and depth:
                if src.startswith('/*', j):
                    depth += 1; j += 2
                elif src.startswith('*/', j):
                    depth -= 1; j += 2
                else:
                    j += 1
            kind = 'doc' if src.startswith('/**', i) and not src.startswith('/**/', i) else 'comment'
            emit(kind, j)
            continue
        m = _RAWSTR.match(src, i)
        if m:
            close = '"' + m.group(1)
            j = src.find(close, m.end())
            if j < 0:
                raise ScanError('unterminated raw string at line %d' % line)
            emit('str', j + len(close))
            continue
        if c == '"' or (c == 'b' and src.startswith('b"', i)) or (c == 'c' and src.startswith('c"', i)):
            j = i + (1 if c == '"' else 2)
            while j < n and src[j] != '"':
                j += 2 if src[j] == '\\' else 1
            emit('str', j + 1)
            continue
        if c == "'" or (c == 'b' and src.startswith("b'", i)):
            k = i + (1 if c == "'" else 2)
            # char literal or lifetime
            if k < n and src[k] == '\\':
                j = k + 2
                while j < n and src[j] != "'":
                    j += 1
                emit('char', j + 1)
                continue
            if k + 1 < n and src[k + 1] == "'" and src[k] != "'":
                emit('char', k + 2)
                continue
            # multi-byte char literal?
            m2 = _IDENT.match(src, k)
            if m2 and c == "'":
                if m2.end() < n and src[m2.end()] == "'" and (m2.end() - k) == 1:
                    emit('char', m2.end() + 1)
                else:
                    emit('lifetime', m2.end())
                continue
            # non-ident single char like '界'
            j = src.find("'", k)
            emit('char', j + 1)
            continue
        m = _IDENT.match(src, i)
        if m:
            emit('ident', m.end())
            continue
        m = _NUM.match(src, i)
        if m:
            emit('num', m.end())
            continue
        if c in '([{':
            emit('open', i + 1)
            continue
        if c in ')]}':
            emit('close', i + 1)
            continue
        emit('punct', i + 1)
    return toks


def code_indices(toks):
    """indices of tokens that are not whitespace/comments"""
    return [k for k, t in enumerate(toks) if t.kind not in ('ws', 'comment', 'doc')]


def match_close(toks, k):
    """index of the token closing the open-delimiter at index k"""
    depth = 0
    for j in range(k, len(toks)):
        t = toks[j]
        if t.kind == 'open':
            depth += 1
        elif t.kind == 'close':
            depth -= 1
            if depth == 0:
                return j
    raise ScanError('unbalanced delimiter at line %d' % toks[k].line)


def _skip_generics(toks, ci, p):
    """ci: code indices; p: position in ci of a '<'. Returns position after the matching '>'."""
    depth = 0
    while p < len(ci):
        t = toks[ci[p]]
        if t.kind == 'punct' and t.text == '<':
            depth += 1
        elif t.kind == 'punct' and t.text == '>':
            # '->' inside generics (Fn() -> X): previous token '-'
            prev = toks[ci[p - 1]]
            if not (prev.kind == 'punct' and prev.text == '-' and prev.pos + 1 == t.pos):
                depth -= 1
                if depth == 0:
                    return p + 1
        elif t.kind == 'open':
            p = ci.index(match_close(toks, ci[p]), p)
        p += 1
    raise ScanError('unbalanced generics')


@dataclass
class Block:
    kind: str          # impl / mod / trait
    name: str          # self type last segment / mod name
    trait: str | None
    open_idx: int
    close_idx: int


def top_blocks(toks, lo=0, hi=None):
    """impl / mod / trait blocks directly inside token range [lo,hi)"""
    hi = len(toks) if hi is None else hi
    out = []
    k = lo
    while k < hi:
        t = toks[k]
        if t.kind == 'open':
            k = match_close(toks, k) + 1
            continue
        if t.kind == 'ident' and t.text in ('impl', 'mod', 'trait'):
            # find the '{' or ';' ending the header
            j = k + 1
            header = []
            ok = False
            while j < hi:
                u = toks[j]
                if u.kind == 'open' and u.text == '{':
                    ok = True
                    break
                if u.kind == 'open':
                    j = match_close(toks, j) + 1
                    continue
                if u.kind == 'punct' and u.text == ';':
                    break
                if u.kind not in ('ws', 'comment', 'doc'):
                    header.append(u)
                j += 1
            if ok:
                close = match_close(toks, j)
                name, trait = _header_name(t.text, header)
                out.append(Block(t.text, name, trait, j, close))
                k = close + 1
                continue
            k = j + 1
            continue
        k += 1
    return out


def _strip_generic_args(header):
    """remove <...> groups from a list of header tokens"""
    out, depth = [], 0
    for idx, u in enumerate(header):
        if u.kind == 'punct' and u.text == '<':
            depth += 1
            continue
        if u.kind == 'punct' and u.text == '>':
            prev = header[idx - 1] if idx else None
            if prev is not None and prev.kind == 'punct' and prev.text == '-' and prev.pos + 1 == u.pos:
                continue
            depth -= 1
            continue
        if depth == 0:
            out.append(u)
    return out


def _header_name(kw, header):
    if kw in ('mod', 'trait'):
        for u in header:
            if u.kind == 'ident':
                return u.text, None
        return '', None
    # impl [<..>] [Trait for] Type [where ...]
    flat = _strip_generic_args(header)
    # cut at 'where'
    cut = []
    for u in flat:
        if u.kind == 'ident' and u.text == 'where':
            break
        cut.append(u)
    idents = [u.text for u in cut if u.kind == 'ident' and u.text not in ('dyn', 'mut', 'const', 'unsafe')]
    trait = None
    if 'for' in idents:
        p = idents.index('for')
        trait = idents[p - 1] if p > 0 else None
        ty = idents[-1]
    else:
        ty = idents[-1] if idents else ''
    return ty, trait


@dataclass
class Item:
    kind: str         # fn / struct / enum / const / static / type
    name: str
    start_idx: int    # first token of the item incl. attributes and doc comments
    kw_idx: int       # index of the 'fn'/'struct'/... keyword
    body_open: int | None   # '{' of the body (fn/struct/enum) or None
    end_idx: int      # last token of the item (inclusive)


_ITEM_KW = ('fn', 'struct', 'enum', 'const', 'static', 'type')
_QUALS = ('pub', 'const', 'unsafe', 'async', 'extern', 'default')


def items_in(toks, lo, hi):
    """items directly inside token range (lo,hi) — e.g. the inside of an impl block or a file"""
    out = []
    k = lo
    while k < hi:
        t = toks[k]
        if t.kind == 'open':
            k = match_close(toks, k) + 1
            continue
        if t.kind == 'ident' and t.text in ('impl', 'mod', 'trait'):
            # skip whole block
            j = k + 1
            while j < hi and not (toks[j].kind == 'open' and toks[j].text == '{') and not (toks[j].kind == 'punct' and toks[j].text == ';'):
                if toks[j].kind == 'open':
                    j = match_close(toks, j)
                j += 1
            if j < hi and toks[j].kind == 'open':
                k = match_close(toks, j) + 1
            else:
                k = j + 1
            continue
        if t.kind == 'ident' and t.text == 'macro_rules':
            j = k
            while j < hi and toks[j].kind != 'open':
                j += 1
            k = match_close(toks, j) + 1
            continue
        if t.kind == 'ident' and t.text in _ITEM_KW:
            # 'const' may be a qualifier of fn: look ahead
            if t.text == 'const':
                nxt = _next_code(toks, k + 1, hi)
                if nxt is not None and toks[nxt].kind == 'ident' and toks[nxt].text in ('fn', 'unsafe', 'extern', 'async'):
                    k += 1
                    continue
            nm = _next_code(toks, k + 1, hi)
            name = toks[nm].text if nm is not None else ''
            if t.text == 'const' and name == 'mut':
                k += 1
                continue
            start = _item_start(toks, k, lo)
            # find end
            j = k + 1
            body_open = None
            end = None
            while j < hi:
                u = toks[j]
                if u.kind == 'open' and u.text == '{' and t.text in ('fn', 'struct', 'enum'):
                    body_open = j
                    end = match_close(toks, j)
                    break
                if u.kind == 'open':
                    j = match_close(toks, j) + 1
                    continue
                if u.kind == 'punct' and u.text == ';':
                    end = j
                    break
                j += 1
            if end is None:
                raise ScanError('unterminated item %s at line %d' % (name, t.line))
            # tuple struct `struct X(..);` handled by ';' branch
            out.append(Item(t.text, name, start, k, body_open, end))
            k = end + 1
            continue
        k += 1
    return out


def _next_code(toks, k, hi):
    while k < hi:
        if toks[k].kind not in ('ws', 'comment', 'doc'):
            return k
        k += 1
    return None


def _item_start(toks, kw, lo):
    """walk back over qualifiers, attributes, doc comments"""
    k = kw
    while True:
        j = k - 1
        while j > lo and toks[j].kind in ('ws', 'comment'):
            j -= 1
        if j <= lo:
            break
        u = toks[j]
        if u.kind == 'ident' and u.text in _QUALS:
            k = j
            continue
        if u.kind == 'str':  # extern "C"
            k = j
            continue
        if u.kind == 'doc':
            k = j
            continue
        if u.kind == 'close' and u.text == ')':
            # pub(crate)
            o = _match_open(toks, j)
            p = o - 1
            while p > lo and toks[p].kind == 'ws':
                p -= 1
            if toks[p].kind == 'ident' and toks[p].text == 'pub':
                k = p
                continue
            break
        if u.kind == 'close' and u.text == ']':
            o = _match_open(toks, j)
            p = o - 1
            if toks[p].kind == 'punct' and toks[p].text == '!':
                p -= 1
            if toks[p].kind == 'punct' and toks[p].text == '#':
                k = p
                continue
            break
        break
    return k


def _match_open(toks, k):
    depth = 0
    for j in range(k, -1, -1):
        t = toks[j]
        if t.kind == 'close':
            depth += 1
        elif t.kind == 'open':
            depth -= 1
            if depth == 0:
                return j
    raise ScanError('unbalanced')


def find_item(toks, path: str, trait: str | None = None, nth: int = 0, explicit: bool = False):
    """path: 'name' (file-level item), 'Type::name' (inside an `impl .. Type`), or
    'mod::...::Type::name'.  trait: restrict to `impl Trait for Type` (or 'none' to
    require an inherent impl).  Returns (Item, Block|None)."""
    segs = path.split('::')
    lo, hi = 0, len(toks)
    blk = None
    cands = []

    def rec(lo, hi, segs, blk):
        if len(segs) == 1:
            for it in items_in(toks, lo, hi):
                if it.name == segs[0]:
                    cands.append((it, blk))
            return
        for b in top_blocks(toks, lo, hi):
            if b.name != segs[0]:
                continue
            if b.kind == 'impl' and len(segs) == 2:
                if trait == 'none' and b.trait is not None:
                    continue
                if trait not in (None, 'none') and b.trait != trait:
                    continue
            rec(b.open_idx + 1, b.close_idx, segs[1:], b)

    rec(lo, hi, segs, blk)
    if len(cands) <= nth:
        raise ScanError('item not found: %s%s' % (path, ' (trait %s)' % trait if trait else ''))
    if len(cands) > 1 and nth == 0 and trait is None and not explicit:
        # ambiguous: prefer inherent impls, else first
        inh = [c for c in cands if c[1] is None or c[1].trait is None]
        if len(inh) == 1:
            return inh[0]
        if len(inh) > 1:
            # several inherent candidates (cfg alternatives): caller must pass nth
            raise ScanError('ambiguous item %s: %d candidates at lines %s' % (
                path, len(cands), [toks[c[0].kw_idx].line for c in cands]))
    return cands[nth]


def loops_in(toks, body_open, body_close):
    """(keyword_idx, header_open_idx, close_idx) of every loop in the body, in source order"""
    out = []
    k = body_open + 1
    while k < body_close:
        t = toks[k]
        if t.kind == 'ident' and t.text in ('while', 'for', 'loop'):
            # `for<'a>` in types: next code token is '<'
            nx = _next_code(toks, k + 1, body_close)
            if t.text == 'for' and nx is not None and toks[nx].kind == 'punct' and toks[nx].text == '<':
                k += 1
                continue
            j = k + 1
            while j < body_close:
                u = toks[j]
                if u.kind == 'open' and u.text == '{':
                    break
                if u.kind == 'open':
                    j = match_close(toks, j) + 1
                    continue
                j += 1
            out.append((k, j, match_close(toks, j)))
        k += 1
    return out
