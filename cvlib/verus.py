"""Verus driver: splice -> verus -> verdict per unit (discharged / failed / undecided)."""
from __future__ import annotations
import json
import os
import re
import subprocess
import time
from . import splice

VERUS = 'verus'

# messages that mean "the solver refuted / could not establish this obligation"
_REFUTED = [
    ('postcondition not satisfied', 'postcondition'),
    ('precondition not satisfied', 'precondition-at-call'),
    ('possible arithmetic underflow/overflow', 'arithmetic-overflow'),
    ('possible division by zero', 'arithmetic-overflow'),
    ('possible bit shift underflow/overflow', 'arithmetic-overflow'),
    ('invariant not satisfied at end of loop body', 'loop-invariant'),
    ('invariant not satisfied before loop', 'loop-invariant'),
    ('loop invariant not satisfied', 'loop-invariant'),   # at a `continue` / `break`
    ('loop ensures not satisfied', 'loop-invariant'),
    ('assertion failed', 'assertion'),
    ('decreases not satisfied', 'decreases'),
    ('could not prove termination', 'decreases'),
    ('assert_by_compute', 'assertion'),
    ('failed this postcondition', 'postcondition'),
    ('unable to prove assertion safety condition', 'unwrap-or-panic'),
    ('constructed value may fail to meet its declared type invariant', 'type-invariant'),
]
_LIMIT = ['rlimit', 'Resource limit', 'timed out', 'timeout', 'solver ran out']


def _parse_diagnostics(stderr: str):
    """-> list of dict(level, msg, line, col, text)"""
    out = []
    cur = None
    for ln in stderr.split('\n'):
        m = re.match(r'^(error|warning|note)(\[E\d+\])?: (.*)$', ln)
        if m:
            cur = {'level': m.group(1), 'code': m.group(2), 'msg': m.group(3), 'line': None, 'col': None, 'text': ln + '\n'}
            out.append(cur)
            continue
        if cur is not None:
            cur['text'] += ln + '\n'
            m2 = re.match(r'^\s*--> [^:]+:(\d+):(\d+)', ln)
            if m2 and cur['line'] is None:
                cur['line'] = int(m2.group(1))
                cur['col'] = int(m2.group(2))
    return out


def _fn_at(lines, lineno):
    """name of the fn whose header precedes output line `lineno` (1-based)"""
    for k in range(min(lineno, len(lines)) - 1, -1, -1):
        m = re.match(r'^\s*(?:pub\s+)?(?:open\s+|closed\s+)?(?:proof\s+|spec\s+|exec\s+)?(?:const\s+|unsafe\s+)?fn\s+([A-Za-z_0-9]+)', lines[k])
        if m:
            return m.group(1)
    return '?'


def run_file(path, timeout=900, extra=()):
    t0 = time.time()
    try:
        p = subprocess.run([VERUS, path, '--output-json', '--time', '--multiple-errors', '8', *extra],
                           capture_output=True, text=True, timeout=timeout,
                           cwd=os.path.dirname(path))
    except subprocess.TimeoutExpired:
        return {'status': 'undecided', 'reason': 'verus timeout after %ds' % timeout, 'wall_s': time.time() - t0,
                'verified': 0, 'errors': 0, 'stderr': '', 'smt_ms': 0, 'failures': []}
    wall = time.time() - t0
    try:
        js = json.loads(p.stdout)
    except Exception:
        return {'status': 'undecided', 'reason': 'verus produced no JSON (exit %s)' % p.returncode, 'wall_s': wall,
                'verified': 0, 'errors': 0, 'stderr': p.stderr[-4000:], 'smt_ms': 0, 'failures': []}
    vr = js.get('verification-results', {})
    smt = js.get('times-ms', {}).get('smt', {})
    funcs = []
    for mod in smt.get('smt-run-module-times', []):
        for fb in mod.get('function-breakdown', []):
            funcs.append({'function': fb.get('function'), 'mode': fb.get('mode:', fb.get('mode')),
                          'ms': fb.get('time'), 'rlimit': fb.get('rlimit'), 'success': fb.get('success')})
    res = {
        'verified': vr.get('verified', 0), 'errors': vr.get('errors', 0), 'success': vr.get('success', False),
        'wall_s': wall, 'smt_ms': smt.get('smt-run', 0), 'total_ms': js.get('times-ms', {}).get('total'),
        'functions': funcs, 'stderr': p.stderr, 'failures': [],
        'verus_version': js.get('verus', {}).get('version'),
    }
    diags = _parse_diagnostics(p.stderr)
    errs = [d for d in diags if d['level'] == 'error' and not d['msg'].startswith('aborting due to')]
    if vr.get('success'):
        res['status'] = 'discharged'
        return res
    if 'verified' not in vr or vr.get('encountered-vir-error'):
        # rustc / VIR error: the text did not get as far as the solver
        res['status'] = 'undecided'
        res['reason'] = 'verus rejected the spliced text: ' + '; '.join(d['msg'] for d in errs[:3])
        return res
    lines = open(path).read().split('\n')
    refuted, limits, other = [], [], []
    for d in errs:
        kind = None
        for pat, k in _REFUTED:
            if pat in d['msg']:
                kind = k
                break
        if kind is None and any(x in d['msg'] for x in _LIMIT):
            limits.append(d)
            continue
        if kind is None:
            other.append(d)
            continue
        d['kind'] = kind
        d['function'] = _fn_at(lines, d['line'] or 1)
        refuted.append(d)
    res['failures'] = refuted
    if refuted:
        res['status'] = 'failed'
    elif limits:
        res['status'] = 'undecided'
        res['reason'] = 'solver resource limit: ' + limits[0]['msg']
    else:
        res['status'] = 'undecided'
        res['reason'] = 'unclassified verus error: ' + '; '.join(d['msg'] for d in other[:3])
    return res


_ASSUME_PATTERNS = [
    (r'\bassume\s*\(', 'assume'),
    (r'\badmit\s*\(', 'admit'),
    (r'external_body', 'external_body'),
    (r'assume_specification', 'assume_specification'),
    (r'external_type_specification', 'external_type_specification'),
    (r'\buninterp\s+spec\s+fn', 'uninterp spec fn'),
    (r'\baxiom\s+fn|broadcast\s+(?:proof|axiom)\s+fn', 'axiom'),
    (r'global\s+size_of', 'global size_of'),
    (r'exec_allows_no_decreases_clause', 'exec_allows_no_decreases_clause (termination not proved)'),
    (r'#\[verifier::truncate\]', 'verifier::truncate'),
]


def scan_assumptions(text: str):
    """mechanical scan of the spliced text for every unverified assumption"""
    out = []
    lines = text.split('\n')
    for i, ln in enumerate(lines):
        code = ln.split('//')[0]
        for pat, name in _ASSUME_PATTERNS:
            if re.search(pat, code):
                # describe with the next item line
                desc = ''
                for j in range(i, min(i + 6, len(lines))):
                    s = lines[j].strip()
                    if re.search(r'\b(fn|struct|enum|assume_specification|global)\b', s) and not s.startswith('#['):
                        desc = ' '.join(s.split())[:160]
                        break
                out.append('%s: %s' % (name, desc or ' '.join(code.split())[:160]))
    # de-duplicate, keep order
    seen, res = set(), []
    for a in out:
        if a not in seen:
            seen.add(a)
            res.append(a)
    return res


def run_unit(repo, unit, builddir, tier):
    """unit: dict from units.toml (backend == 'verus').  Returns verdict dict."""
    name = unit['name']
    tpath = os.path.join(unit['_dir'], unit['template'])
    os.makedirs(builddir, exist_ok=True)
    out = {'unit': name, 'backend': 'verus', 'carries': unit.get('carries', ''), 'bounded': False}
    try:
        sp = splice.build(repo, tpath, canary=False)
        npts = sp.canary_points
        canaries = [splice.build(repo, tpath, canary=k) for k in range(npts)]
    except splice.AnchorLost as e:
        out.update(status='undecided', reason='anchor-lost: %s' % e)
        return out
    if npts == 0:
        out.update(status='undecided', reason='template has no role=main function for the canary')
        return out
    fname = name.replace('-', '_').lower()
    main_path = os.path.join(builddir, fname + '.rs')
    open(main_path, 'w').write(sp.text)
    can_paths = []
    for k, c in enumerate(canaries):
        cp = os.path.join(builddir, fname + '_canary%d.rs' % k)
        open(cp, 'w').write(c.text)
        can_paths.append(cp)
    timeout = int(unit.get('timeout_s', 600))
    from concurrent.futures import ThreadPoolExecutor
    with ThreadPoolExecutor(4) as ex:
        f1 = ex.submit(run_file, main_path, timeout)
        fcs = [ex.submit(run_file, cp, timeout) for cp in can_paths]
        r = f1.result()
        rcs = [f.result() for f in fcs]
    # one canary file per main function: `ensures false` on that function alone must be refuted
    bad = [k for k, rc_ in enumerate(rcs) if rc_.get('status') != 'failed']
    rc = {'status': 'failed' if not bad else 'not-refuted', 'errors': sum(x.get('errors', 0) for x in rcs), 'bad': bad}

    class _S:  # keeps the later code unchanged
        canary_points = npts
    spc = _S()
    out['checker_cmd'] = 'verus %s --output-json --time' % os.path.relpath(main_path, '/verif')
    out['functions'] = [f for f in sp.functions if f['role'] in ('main', 'helper')]
    out['env_items'] = [f for f in sp.functions if f['role'] in ('item', 'fields')]
    out['rules_fired'] = sp.rules
    out['dropped_debug_asserts'] = sp.dropped_debug_asserts
    out['assumptions'] = scan_assumptions(sp.text)
    out['verified'] = r.get('verified', 0)
    out['errors'] = r.get('errors', 0)
    out['solver_s'] = round((r.get('smt_ms') or 0) / 1000.0, 3)
    out['wall_s'] = round(r.get('wall_s', 0) + 0.0, 2)
    out['verus_functions'] = r.get('functions', [])
    out['canary'] = {'status': rc.get('status'), 'errors': rc.get('errors', 0), 'points': spc.canary_points}
    out['status'] = r['status']
    if r['status'] == 'undecided':
        # the text was not accepted.  When that is because of a closure the proof was not written for, handed to an Option combinator Verus
        # has no specification for (`map_or`), the second attempt below (X2d-auto) may still decide the unit
        unexpected = [f for f in sp.functions if f.get('role') in ('main', 'helper') and len(f.get('closures_left') or []) > f.get('closures_ok', 0)]
        sp2 = None
        if unexpected and 'not supported' in (r.get('reason') or ''):
            try:
                sp2 = splice.build(repo, tpath, canary=False, auto=True)
            except splice.AnchorLost:
                sp2 = None
        r2 = None
        if sp2 is not None and sp2.rules.get('X2d-auto'):
            auto_path = os.path.join(builddir, fname + '_auto.rs')
            open(auto_path, 'w').write(sp2.text)
            r2 = run_file(auto_path, timeout)
        if r2 is None or r2['status'] == 'undecided':
            out['reason'] = r.get('reason', '')
            out['stderr_tail'] = r.get('stderr', '')[-3000:]
            return out
        still = [f for f in sp2.functions if f.get('role') in ('main', 'helper') and len(f.get('closures_left') or []) > f.get('closures_ok', 0)
                 and (r2['status'] != 'failed' or f['item'].split('::')[-1] in set(d['function'] for d in r2['failures']))]
        if r2['status'] == 'failed' and still:
            out['reason'] = r.get('reason', '')
            return out
        out['auto_desugar'] = {'rule': 'X2d-auto', 'sites': sp2.rules.get('X2d-auto'), 'file': os.path.relpath(auto_path, '/verif')}
        out['rules_fired'] = sp2.rules
        out['dropped_debug_asserts'] = sp2.dropped_debug_asserts
        out['functions'] = [f for f in sp2.functions if f['role'] in ('main', 'helper')]
        out['verified'] = r2.get('verified', 0)
        out['errors'] = r2.get('errors', 0)
        out['checker_cmd'] = 'verus %s --output-json --time' % os.path.relpath(auto_path, '/verif')
        sp, r, main_path = sp2, r2, auto_path
        out['status'] = r['status']
        for f in sp.functions:           # (the retry below must not run a second time)
            f['closures_ok'] = max(f.get('closures_ok', 0), len(f.get('closures_left') or []))
    if r['status'] == 'failed':
        # a failed obligation in a function whose text now holds a closure the proof was not written for (more un-rewritten closures
        # than its `//@splice .. closures_ok=N` line allows) is NOT a violation: Verus accepts such a closure (e.g. inside Option::map)
        # without seeing through it, so the obligation may be unprovable although the behaviour is unchanged -> undecided
        opaque = []
        failed_fns = set(d['function'] for d in r['failures'])
        for f in sp.functions:
            if f.get('role') in ('main', 'helper') and f['item'].split('::')[-1] in failed_fns \
                    and len(f.get('closures_left') or []) > f.get('closures_ok', 0):
                opaque.append('%s (%s:%s)' % (f['item'], f['file'], ','.join(str(x) for x in f['closures_left'])))
        if opaque:
            # second attempt (X2d-auto): where such a closure is handed to `.map` / `.and_then` / `.filter` of what type-checks as an
            # Option, it is written as the match it abbreviates — a meaning-preserving rewriting, so a pass is a pass and a failure
            # in a function that holds no unexpected closure any more is a violation; anything else stays undecided
            reason = 'obligation failed in a function that now holds a closure the proof was not written for: ' + '; '.join(opaque)
            try:
                sp2 = splice.build(repo, tpath, canary=False, auto=True)
            except splice.AnchorLost as e:
                sp2 = None
            r2 = None
            if sp2 is not None and sp2.rules.get('X2d-auto'):
                auto_path = os.path.join(builddir, fname + '_auto.rs')
                open(auto_path, 'w').write(sp2.text)
                r2 = run_file(auto_path, timeout)
            if r2 is None or r2['status'] == 'undecided':
                out['status'] = 'undecided'
                out['reason'] = reason + ('' if r2 is None else ' (and the text with those closures written as matches is not accepted: %s)' % r2.get('reason', '')[:200])
                return out
            out['auto_desugar'] = {'rule': 'X2d-auto', 'sites': sp2.rules.get('X2d-auto'), 'file': os.path.relpath(auto_path, '/verif')}
            out['rules_fired'] = sp2.rules
            out['dropped_debug_asserts'] = sp2.dropped_debug_asserts
            out['functions'] = [f for f in sp2.functions if f['role'] in ('main', 'helper')]
            out['verified'] = r2.get('verified', 0)
            out['errors'] = r2.get('errors', 0)
            out['checker_cmd'] = 'verus %s --output-json --time' % os.path.relpath(auto_path, '/verif')
            if r2['status'] == 'failed':
                failed2 = set(d['function'] for d in r2['failures'])
                opaque2 = ['%s (%s:%s)' % (f['item'], f['file'], ','.join(str(x) for x in f['closures_left'])) for f in sp2.functions
                           if f.get('role') in ('main', 'helper') and f['item'].split('::')[-1] in failed2
                           and len(f.get('closures_left') or []) > f.get('closures_ok', 0)]
                if opaque2:
                    out['status'] = 'undecided'
                    out['reason'] = reason
                    return out
                sp, r, main_path = sp2, r2, auto_path
            else:
                sp, r = sp2, r2
                out['status'] = r2['status']
    if r['status'] == 'failed':
        fails = []
        for d in r['failures']:
            ol = d['line']
            src = sp.linemap[ol - 1] if ol and ol - 1 < len(sp.linemap) else None
            if not src:
                # an inserted (ghost) line: name the /repo location of the function it belongs to
                for f in sp.functions:
                    if f.get('role') in ('main', 'helper') and f['item'].split('::')[-1] == d['function']:
                        src = (f['file'], f['line_start'])
                        break
            loc = '%s:%d' % src if src else '%s:%d' % (os.path.basename(main_path), ol or 0)
            fails.append({'obligation': '%s::%s::%s@%s' % (name, d['function'], d['kind'], loc),
                          'kind': d['kind'], 'function': d['function'], 'repo_loc': loc if src else None,
                          'diagnostic': d['text'][:4000]})
        out['failed_obligations'] = fails
        return out
    # discharged: vacuity + count checks
    exp = unit.get('expect_verified')
    if exp is not None and out['verified'] != exp:
        out['status'] = 'undecided'
        out['reason'] = 'verified %d functions, unit declares %d' % (out['verified'], exp)
        return out
    if out['verified'] < 1:
        out['status'] = 'undecided'
        out['reason'] = 'zero obligations generated'
        return out
    if rc.get('status') != 'failed':
        out['status'] = 'undecided'
        out['reason'] = 'canary (ensures false) was not refuted for main function(s) #%s of %d — assumptions may be contradictory' % (
            rc.get('bad'), spc.canary_points)
        return out
    return out
