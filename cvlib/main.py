"""cv — contract verification driver for clap-rs/clap (see DESIGN.md).

  cv check <ID> [--tier quick|thorough] [--unit NAME] [--keep]
  cv replay <file>
  cv list
"""
from __future__ import annotations
import argparse
import json
import os
import re
import shutil
import sys
import time
import tomllib
from concurrent.futures import ThreadPoolExecutor

from . import verus as V
from . import kani as K
from . import splice

ROOT = os.path.dirname(os.path.dirname(os.path.abspath(__file__)))
REPO = os.environ.get('CV_REPO', '/repo')
BUILD = os.environ.get('CV_BUILD') or os.path.join(ROOT, 'build')
NCPU = os.cpu_count() or 4


def load_property(pid):
    d = os.path.join(ROOT, 'units', pid)
    cfg = tomllib.load(open(os.path.join(d, 'units.toml'), 'rb'))
    for u in cfg.get('unit', []):
        u['_dir'] = d
    return cfg


def load_known(pid):
    path = os.path.join(ROOT, 'known_findings.txt')
    out = []
    if not os.path.exists(path):
        return out
    for ln in open(path):
        ln = ln.strip()
        if not ln.startswith('finding:'):
            continue
        kv = dict(re.findall(r'(\w+)=("[^"]*"|\S+)', ln))
        kv = {k: v.strip('"') for k, v in kv.items()}
        if kv.get('property') == pid:
            kv['_line'] = ln
            out.append(kv)
    return out


def tier_ok(t, tier):
    if t == 'never':      # kept for documentation (measured beyond the budget), never run
        return False
    return t in (None, 'quick', 'both') or tier == 'thorough'


# ---------------------------------------------------------------- kani side

def run_kani_units(pid, units, tier, log, only_harness=None):
    """returns list of per-harness verdict dicts"""
    if not units:
        return [], {}
    wsdir = os.path.join(BUILD, 'k', pid, 'ws')
    logdir = os.path.join(BUILD, 'k', pid, 'logs')
    os.makedirs(logdir, exist_ok=True)
    K.prepare_ws(REPO, wsdir)
    verdicts = []
    anchor_bad = {}
    for u in units:
        probs = K.append_unit(wsdir, u)
        if probs:
            anchor_bad[u['name']] = probs
    groups = {}
    for u in units:
        key = (u['package'], tuple(u.get('features', [])), bool(u.get('no_default_features')), tuple(u.get('kani_args', [])), tuple(u.get('cbmc_args', [])))
        groups.setdefault(key, []).append(u)
    meta = {'groups': []}
    for key, us in groups.items():
        pkg, feats, nodef, kargs, cargs = key
        hs = []
        for u in us:
            for h in u['harness']:
                if (only_harness is None and tier_ok(h.get('tier'), tier)) or (only_harness is not None and h['name'] in only_harness):
                    hs.append((u, h))
        if not hs:
            continue
        bad = [(u, h) for (u, h) in hs if u['name'] in anchor_bad]
        for u, h in bad:
            verdicts.append(_kv(u, h, 'undecided', reason='anchor-lost: ' + '; '.join(anchor_bad[u['name']])))
        hs = [(u, h) for (u, h) in hs if u['name'] not in anchor_bad]
        if not hs:
            continue
        names = ['%s::%s' % (K.full_mod_path(u), h['name']) for u, h in hs]
        tmo = max(int(h.get('timeout_s', u.get('timeout_s', 900))) for u, h in hs)
        jobs = min(int(min(u.get('jobs', 12) for u, h in hs)), NCPU)
        logpath = os.path.join(logdir, 'group_%s_%s.log' % (pkg, abs(hash(key)) % 10000))
        log('[kani] %s: %d harness(es), -j %d, timeout %ds' % (pkg, len(names), jobs, tmo))
        res, text, wall, cmd, cerr = K.run_group(wsdir, pkg, list(feats), nodef, list(kargs), names, jobs, tmo, logpath,
                                                   extra=(['--cbmc-args'] + list(cargs)) if cargs else ())
        meta['groups'].append({'package': pkg, 'cmd': cmd, 'wall_s': round(wall, 1), 'log': os.path.relpath(logpath, ROOT)})
        for (u, h), full in zip(hs, names):
            r = res.get(full)
            if cerr or r is None:
                verdicts.append(_kv(u, h, 'undecided', reason='harness did not build/run against this tree: %s' % (cerr or 'no result for harness'),
                                    cmd=cmd))
                continue
            v = _kv(u, h, None, cmd=cmd)
            v.update(checks_total=r['checks_total'] or 0, checks_failed=r['checks_failed'] or 0,
                     covers_total=r['covers_total'] or 0, covers_sat=r['covers_sat'] or 0,
                     solver_s=r['time_s'] or 0.0)
            if r['verdict'] == 'SUCCESSFUL':
                if (r['checks_total'] or 0) < 1:
                    v.update(status='undecided', reason='zero checks generated')
                elif (r['covers_total'] or 0) != (r['covers_sat'] or 0):
                    v.update(status='undecided', reason='vacuity: only %s of %s cover points reachable' % (r['covers_sat'], r['covers_total']))
                elif h.get('min_covers') and (r['covers_total'] or 0) < int(h['min_covers']):
                    v.update(status='undecided', reason='expected >= %s cover points, found %s' % (h['min_covers'], r['covers_total']))
                else:
                    v['status'] = 'discharged'
            elif r['verdict'] == 'FAILED':
                fcs = r['failed_checks']
                only_unwind = fcs and all('unwinding assertion' in (f['desc'] or '') for f in fcs)
                if r['timeout'] and not fcs:
                    v.update(status='undecided', reason='CBMC timeout (%ds)' % tmo)
                elif only_unwind:
                    v.update(status='undecided', reason='unwinding bound too small: ' + fcs[0]['desc'])
                elif not fcs:
                    v.update(status='undecided', reason='FAILED without a failed check (tool limit): ' + r['raw'][-300:])
                else:
                    real = [f for f in fcs if 'unwinding assertion' not in (f['desc'] or '')]
                    unsupported = [f for f in real if re.search(r'is not currently supported by Kani|unsupported construct', f['desc'] or '')]
                    if unsupported and len(unsupported) == len(real):
                        v.update(status='undecided', reason='unsupported construct reached: ' + unsupported[0]['desc'][:200])
                    else:
                        v['status'] = 'failed'
                        v['failed_checks'] = real
            else:
                if r['timeout'] or 'timed out' in r['raw'].lower():
                    v.update(status='undecided', reason='CBMC timeout (%ds)' % tmo)
                else:
                    v.update(status='undecided', reason='no verdict (out of memory / killed?): ' + r['raw'][-300:])
            verdicts.append(v)
    # concrete playback for failures (at most two per unit: each re-runs CBMC; further failing harnesses of
    # the same unit are reported with the verifier's output only)
    played = {}
    for v in verdicts:
        if v.get('status') != 'failed':
            continue
        u, h = v['_unit'], v['_h']
        played[u['name']] = played.get(u['name'], 0) + 1
        if played[u['name']] > 2:
            v['playback_tests'] = None
            v['native_replay'] = {'skipped': 'more than two failing harnesses in this unit; see the first two replays'}
            continue
        full = '%s::%s' % (K.full_mod_path(u), h['name'])
        log('[kani] %s failed: concrete playback ...' % full)
        tests = K.playback_print(wsdir, u['package'], u.get('features', []), bool(u.get('no_default_features')),
                                 u.get('kani_args', []), full, int(h.get('timeout_s', u.get('timeout_s', 900))),
                                 os.path.join(logdir, 'playback_%s.log' % h['name']))
        v['playback_tests'] = tests
        if tests and h.get('native_replay', True) is False:
            # the harness chooses values through a stub (e.g. a symbolic std parser): its counterexample is
            # relative to the stubbed environment and cannot be run natively; recorded, not replayed
            v['native_replay'] = {'skipped': 'counterexample is relative to stubs: ' + str(h.get('native_replay_note', ''))}
        elif tests:
            # native replay against the real code
            rws = os.path.join(BUILD, 'k', pid, 'replay_ws')
            K.prepare_ws(REPO, rws)
            K.append_unit(rws, u, extra_tests='\n'.join(tests))
            names = re.findall(r'fn (kani_concrete_playback_\w+)', '\n'.join(tests))
            outcome, panic, text = K.playback_run(rws, u['package'], u.get('features', []), bool(u.get('no_default_features')),
                                                  names, os.path.join(logdir, 'replay_%s.log' % h['name']))
            v['native_replay'] = {'tests': outcome, 'panic': [' '.join(p) for p in panic][:3]}
            shutil.rmtree(rws, ignore_errors=True)
    return verdicts, meta


def _kv(u, h, status, reason=None, cmd=None):
    d = {'unit': u['name'], 'harness': h['name'], 'backend': 'kani', 'status': status,
         'complete': bool(h.get('complete', False)), 'bounded': not bool(h.get('complete', False)),
         'bound': h.get('bound', ''), 'carries': h.get('carries', u.get('carries', '')),
         'functions': h.get('functions', u.get('functions', [])), 'input_space': h.get('input_space', ''),
         '_unit': u, '_h': h, 'checker_cmd': cmd or ''}
    if reason:
        d['reason'] = reason
    return d


# ---------------------------------------------------------------- check

def check(pid, tier, only_unit=None, quiet=False, only_harness=None):
    t0 = time.time()
    cfg = load_property(pid)
    known = load_known(pid)
    seed = int(os.environ.get('VERIF_SEED', '0') or 0)

    def log(msg):
        if not quiet:
            print(msg, flush=True)

    units = [u for u in cfg.get('unit', []) if (only_unit is None or u['name'] == only_unit)]
    vunits = [u for u in units if u['backend'] == 'verus' and tier_ok(u.get('tier'), tier)]
    kunits = [u for u in units if u['backend'] == 'kani']
    if os.environ.get('CV_ONLY_BACKEND') == 'verus' and REPO != '/repo':
        # development aid (re-running seeded changes against the Verus units only); never in effect on /repo itself
        kunits = []
    vb = os.path.join(BUILD, 'v', pid)
    if os.path.isdir(vb):
        shutil.rmtree(vb)
    os.makedirs(vb, exist_ok=True)
    results = []
    with ThreadPoolExecutor(max_workers=max(1, min(6, len(vunits) + 1))) as ex:
        kf = ex.submit(run_kani_units, pid, kunits, tier, log, only_harness)
        vfs = [(u, ex.submit(V.run_unit, REPO, u, vb, tier)) for u in vunits]
        for u, f in vfs:
            try:
                r = f.result()
            except Exception as e:  # driver bug: never an alarm
                r = {'unit': u['name'], 'backend': 'verus', 'status': 'undecided', 'reason': 'driver error: %r' % e}
            results.append(r)
        try:
            kres, kmeta = kf.result()
        except Exception as e:
            kres, kmeta = [{'unit': u['name'], 'harness': '*', 'backend': 'kani', 'status': 'undecided',
                            'reason': 'driver error: %r' % e, 'bounded': True, 'complete': False} for u in kunits], {}
        results.extend(kres)

    # ------------- verdicts
    violations, known_hits, undecided = [], [], []
    os.makedirs(os.path.join(ROOT, 'replays'), exist_ok=True)
    for r in results:
        label = r['unit'] + ('/' + r['harness'] if r.get('harness') else '')
        if r['status'] == 'discharged':
            if r['backend'] == 'verus':
                log('[ok] %-28s verus: %d verified, 0 errors, canary fails, solver %.2fs' % (label, r['verified'], r['solver_s']))
            else:
                log('[ok] %-28s kani%s: %d checks, %d/%d covers, %.1fs' % (label, '' if r['complete'] else ' (bounded: %s)' % r['bound'],
                                                                          r['checks_total'], r['covers_sat'], r['covers_total'], r['solver_s']))
            continue
        if r['status'] == 'undecided':
            undecided.append(r)
            log('UNDECIDED unit=%s reason=%s' % (label, r.get('reason', '')))
            continue
        # failed
        obls = []
        if r['backend'] == 'verus':
            obls = r['failed_obligations']
        else:
            for fc in r['failed_checks']:
                loc = ''
                if fc.get('file'):
                    f = fc['file']
                    f = re.sub(r'^.*/ws/', '', f)
                    loc = '@%s:%s' % (f, fc.get('line'))
                obls.append({'obligation': '%s::%s::kani-assertion[%s]%s' % (r['unit'], r['harness'], (fc['desc'] or '')[:120], loc),
                             'kind': 'kani-assertion', 'function': fc.get('fn'), 'diagnostic': json.dumps(fc)})
        new_obls = []
        for o in obls:
            hit = match_known(known, r, o)
            if hit:
                known_hits.append((hit, o))
            else:
                new_obls.append(o)
        if not new_obls:
            continue
        # replay file
        rp = os.path.join(ROOT, 'replays', '%s-%s%s.json' % (pid, r['unit'], '-' + r['harness'] if r.get('harness') else ''))
        replay = {'property': pid, 'unit': r['unit'], 'harness': r.get('harness'), 'backend': r['backend'], 'tier': tier,
                  'failed_obligations': new_obls, 'checker_cmd': r.get('checker_cmd')}
        found_input = False
        if r['backend'] == 'kani':
            replay['playback_tests'] = r.get('playback_tests')
            replay['native_replay'] = r.get('native_replay')
            nr = r.get('native_replay') or {}
            found_input = any(v == 'failed' for v in (nr.get('tests') or {}).values())
            if r.get('playback_tests') and not found_input and not nr.get('skipped'):
                # the counterexample does not reproduce natively (e.g. it relied on a stub): not reported as a violation
                r['status'] = 'undecided'
                r['reason'] = 'counterexample did not reproduce on the native run: ' + json.dumps(nr)[:300]
                undecided.append(r)
                log('UNDECIDED unit=%s reason=%s' % (label, r['reason']))
                json.dump(replay, open(rp, 'w'), indent=1)
                continue
        else:
            replay['verus_output'] = [o['diagnostic'] for o in new_obls]
        json.dump(replay, open(rp, 'w'), indent=1)
        violations.append((r, new_obls, rp, found_input))

    for hit, o in known_hits:
        print('KNOWN-FINDING: property=%s %s [%s]' % (pid, hit.get('input', ''), o['obligation']), flush=True)

    wall = time.time() - t0
    write_evidence(pid, cfg, tier, seed, results, violations, known_hits, undecided, wall, kmeta)

    for r, obls, rp, found in violations:
        for o in obls:
            log('  failed obligation: %s' % o['obligation'])
        print('VIOLATION property=%s replay=%s%s' % (pid, rp, '' if found else ' no-failing-input-found'), flush=True)
    if violations:
        return 1
    if undecided:
        return 2
    log('PASS property=%s tier=%s units=%d wall=%.1fs' % (pid, tier, len(results), wall))
    return 0


def match_known(known, r, o):
    for k in known:
        if k.get('unit') and k['unit'] != r['unit']:
            continue
        if k.get('harness') and k['harness'] != r.get('harness'):
            continue
        pat = k.get('obligation', '')
        if pat and pat not in o['obligation']:
            continue
        # text="..." narrows a finding to the failed CLAUSE: it must occur in the verifier's diagnostic (which quotes the clause)
        txt = k.get('text', '')
        if txt and txt not in (o.get('diagnostic') or ''):
            continue
        return k
    return None


# ---------------------------------------------------------------- evidence

def write_evidence(pid, cfg, tier, seed, results, violations, known_hits, undecided, wall, kmeta):
    # development runs against another tree (CV_REPO) never touch the committed evidence directory
    evdir = os.path.join(ROOT, 'evidence') if REPO == '/repo' else os.path.join(BUILD, 'evidence_dev')
    os.makedirs(evdir, exist_ok=True)
    units_out = []
    obligations = discharged = evaluations = nontrivial = 0
    assumptions = []
    samples = []
    cmds = []
    proved_functions, bounded_functions = [], []
    solver_s = 0.0
    for r in results:
        u = {k: v for k, v in r.items() if not k.startswith('_') and k not in ('stderr_tail', 'playback_tests', 'verus_functions')}
        if r['backend'] == 'verus':
            n = (r.get('verified', 0) or 0) + (r.get('errors', 0) or 0)
            obligations += n
            evaluations += n
            if r['status'] == 'discharged':
                discharged += r.get('verified', 0)
                nontrivial += r.get('verified', 0)
                for f in r.get('functions', []):
                    proved_functions.append('%s (%s:%d) [verus, unbounded]' % (f['item'], f['file'], f['line_start']))
            for a in r.get('assumptions', []):
                assumptions.append('%s: %s' % (r['unit'], a))
            for a in r.get('dropped_debug_asserts', []):
                if '(X7)' in a:
                    assumptions.append('%s: %s' % (r['unit'], a))
                else:
                    assumptions.append('%s: debug_assert dropped from the verified text (unchecked panic obligation): %s' % (r['unit'], a))
            for vf in r.get('verus_functions', []):
                if len(samples) < 40:
                    samples.append({'unit': r['unit'], 'verus_function': vf['function'], 'mode': vf['mode'], 'rlimit': vf['rlimit'], 'proved': vf['success']})
            u['verus_functions'] = r.get('verus_functions', [])
            if r.get('checker_cmd'):
                cmds.append(r['checker_cmd'])
            solver_s += r.get('solver_s', 0) or 0
        else:
            ct, cs = r.get('checks_total', 0) or 0, r.get('covers_sat', 0) or 0
            obligations += ct + (r.get('covers_total', 0) or 0)
            evaluations += ct + (r.get('covers_total', 0) or 0)
            if r['status'] == 'discharged':
                discharged += ct + cs
                nontrivial += 1 + cs
                tgt = proved_functions if r.get('complete') else bounded_functions
                for f in r.get('functions', []):
                    tgt.append('%s [kani %s]' % (f, 'complete: ' + (r.get('input_space') or 'full input domain, loop-free or fully unwound')
                                                 if r.get('complete') else 'BOUNDED: ' + r.get('bound', '')))
            hk = r.get('_h', {})
            uu = r.get('_unit', {})
            if uu:
                htxt = open(os.path.join(uu['_dir'], uu['harness_file'])).read()
                for a in K.scan_assumptions(_harness_text(htxt, r['harness'])):
                    assumptions.append('%s/%s: %s' % (r['unit'], r['harness'], a))
            if len(samples) < 40:
                samples.append({'unit': r['unit'], 'harness': r.get('harness'), 'bound': r.get('bound'), 'complete': r.get('complete'),
                                'input_space': r.get('input_space'), 'cbmc_checks': ct, 'covers': '%s/%s' % (cs, r.get('covers_total')),
                                'status': r['status']})
            if r.get('checker_cmd') and r['checker_cmd'] not in cmds:
                cmds.append(r['checker_cmd'])
            solver_s += r.get('solver_s', 0) or 0
        units_out.append(u)
    seen, asm = set(), []
    for a in list(cfg.get('trusted_base', [])) + assumptions:
        if a not in seen:
            seen.add(a); asm.append(a)
    level = cfg.get('level', 'other')
    cov = {
        'obligations': obligations,
        'discharged': discharged,
        'checker_cmd': ' ; '.join(cmds)[:6000] or 'n/a',
        'trusted_base': asm,
        'evaluations': evaluations,
        'distinct_nontrivial': nontrivial,
        'rule': 'evaluations = Verus functions checked + CBMC properties and cover points checked on this run (parsed from tool output); '
                'distinct_nontrivial = Verus functions verified + Kani harnesses discharged + cover points satisfied; '
                'compiler-generated CBMC checks count in evaluations only',
        'samples': samples or [{'note': 'no unit ran'}],
        'exhaustive': False,
        'explanation': cfg.get('claim', ''),
        'claim': cfg.get('claim', ''),
        'proved_functions': proved_functions,
        'bounded_functions_not_counted_as_proved': bounded_functions,
        'not_reached': cfg.get('not_reached', []),
        'links': cfg.get('links', []),
        'units': units_out,
        'undecided': [{'unit': r['unit'], 'harness': r.get('harness'), 'reason': r.get('reason')} for r in undecided],
        'known_findings_hit': [h.get('_line') for h, _ in known_hits],
        'solver_s': round(solver_s, 2),
        'kani_groups': kmeta.get('groups', []) if kmeta else [],
        'repo_head': _git_head(),
    }
    ev = {
        'property_id': pid, 'tier': tier, 'seed': seed, 'level': level, 'coverage': cov,
        'assumptions': asm, 'wall_s': round(wall, 2), 'violations': len(violations),
    }
    json.dump(ev, open(os.path.join(evdir, pid + '.json'), 'w'), indent=1, default=str)


def _harness_text(htxt, name):
    """text of one harness fn incl. its attributes (for the assumption scan)"""
    m = re.search(r'((?:#\[[^\n]*\]\s*\n)*)\s*(?:pub(?:\([a-z]+\))?\s+)?fn %s\s*\(' % re.escape(name), htxt)
    if not m:
        return htxt
    start = m.start()
    nxt = re.search(r'\n#\[kani::proof', htxt[m.end():])
    end = m.end() + nxt.start() if nxt else len(htxt)
    return htxt[start:end]


def _git_head():
    try:
        import subprocess
        h = subprocess.run(['git', '-C', REPO, 'rev-parse', '--short', 'HEAD'], capture_output=True, text=True).stdout.strip()
        d = subprocess.run(['git', '-C', REPO, 'status', '--porcelain', '--untracked-files=no'], capture_output=True, text=True).stdout.strip()
        return h + ('+dirty' if d else '')
    except Exception:
        return 'unknown'


# ---------------------------------------------------------------- replay

def replay(path):
    rp = json.load(open(path))
    pid = rp['property']
    cfg = load_property(pid)
    unit = next((u for u in cfg['unit'] if u['name'] == rp['unit']), None)
    if unit is None:
        print('replay: unit %s no longer exists' % rp['unit'])
        return 2
    print('replay: property=%s unit=%s' % (pid, rp['unit']))
    for o in rp['failed_obligations']:
        print('  obligation: %s' % o['obligation'])
    if rp['backend'] == 'kani' and rp.get('playback_tests'):
        rws = os.path.join(BUILD, 'k', pid, 'replay_ws')
        K.prepare_ws(REPO, rws)
        K.append_unit(rws, unit, extra_tests='\n'.join(rp['playback_tests']))
        names = re.findall(r'fn (kani_concrete_playback_\w+)', '\n'.join(rp['playback_tests']))
        os.makedirs(os.path.join(BUILD, 'k', pid, 'logs'), exist_ok=True)
        outcome, panic, text = K.playback_run(rws, unit['package'], unit.get('features', []), bool(unit.get('no_default_features')),
                                              names, os.path.join(BUILD, 'k', pid, 'logs', 'replay_cmd.log'))
        shutil.rmtree(rws, ignore_errors=True)
        print('  native run of the counterexample against /repo:', outcome)
        for p in panic[:3]:
            print('  panic:', ' '.join(p))
        return 1 if any(v == 'failed' for v in outcome.values()) else 0
    if rp['backend'] == 'verus':
        vb = os.path.join(BUILD, 'v', pid + '_replay')
        r = V.run_unit(REPO, unit, vb, 'quick')
        print('  verus re-run on /repo: %s' % r['status'])
        for o in r.get('failed_obligations', []):
            print('  still failing: %s' % o['obligation'])
            print(o['diagnostic'])
        return 1 if r['status'] == 'failed' else 0
    print('  no concrete input recorded (no-failing-input-found); verifier output:')
    for o in rp['failed_obligations']:
        print(o.get('diagnostic', ''))
    return 1


def main(argv=None):
    ap = argparse.ArgumentParser(prog='cv')
    sub = ap.add_subparsers(dest='cmd', required=True)
    c = sub.add_parser('check')
    c.add_argument('pid')
    c.add_argument('--tier', default=os.environ.get('VERIF_TIER', 'quick'), choices=['quick', 'thorough'])
    c.add_argument('--unit')
    c.add_argument('--harness', action='append')
    r = sub.add_parser('replay')
    r.add_argument('path')
    sub.add_parser('list')
    a = ap.parse_args(argv)
    if a.cmd == 'check':
        return check(a.pid, a.tier, a.unit, False, a.harness)
    if a.cmd == 'replay':
        return replay(a.path)
    if a.cmd == 'list':
        for d in sorted(os.listdir(os.path.join(ROOT, 'units'))):
            if os.path.exists(os.path.join(ROOT, 'units', d, 'units.toml')):
                cfg = load_property(d)
                print(d, cfg.get('level'), [u['name'] for u in cfg.get('unit', [])])
        return 0


if __name__ == '__main__':
    sys.exit(main())
