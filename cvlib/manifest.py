"""Generate MANIFEST.json from units/*/units.toml and units/not_applicable.toml."""
import json, os, tomllib
ROOT = os.path.dirname(os.path.dirname(os.path.abspath(__file__)))
BASELINE = 'cd /repo && cargo nextest run --workspace --no-fail-fast --tool-config-file pb:/w/lib/nextest.toml --profile pb --test-threads 8 --offline'


def main():
    checks = []
    ids = []
    for d in sorted(os.listdir(os.path.join(ROOT, 'units'))):
        p = os.path.join(ROOT, 'units', d, 'units.toml')
        if not os.path.exists(p):
            continue
        cfg = tomllib.load(open(p, 'rb'))
        if not cfg.get('claimed', True):
            continue
        ids.append(cfg['id'])
        checks.append({
            'property_id': cfg['id'],
            'quick_cmd': './cv check %s --tier quick' % cfg['id'],
            'thorough_cmd': './cv check %s --tier thorough' % cfg['id'],
            'evidence_file': 'evidence/%s.json' % cfg['id'],
            'replay_cmd_template': './cv replay {path}',
            'engine': 'cv',
            'level_claimed': {'category': cfg['level'], 'text': cfg['claim'], 'design_ref': cfg.get('design_ref', 'DESIGN.md §4 ' + cfg['id'])},
            'level_note': cfg.get('level_note', '; '.join(cfg.get('trusted_base', []))),
            'technique': cfg.get('technique', 'contract-based deductive verification (Verus on mechanically extracted functions; Kani/CBMC harnesses on the real crate)'),
        })
    na = tomllib.load(open(os.path.join(ROOT, 'units', 'not_applicable.toml'), 'rb'))
    man = {
        'version': 1,
        'setup_cmd': 'python3 -m cvlib.setup',
        'hooks': {
            'guard': 'kani',
            'enable': 'no hook commit in /repo: harness modules are appended under #[cfg(kani)] to a per-run copy of the working tree under /verif/build; Verus units splice the real function text into a scratch file',
            'baseline_off_cmd': BASELINE,
            'source_commits': [],
            'add_only': True,
        },
        'engines': [{'name': 'cv', 'path': 'cv', 'serves_properties': ids,
                     'kind_free_text': 'unit-contract driver: mechanical extraction + Verus (unbounded) and Kani/CBMC (complete or bounded) per unit'}],
        'checks': checks,
        'not_applicable': [x for x in na['na'] if x['property_id'] not in ids],
        'notes': 'See DESIGN.md. exit 0 = all units discharged; exit 1 + VIOLATION = a contract obligation of a unit is refuted on this tree; exit 2 = undecided (tool limit, lost anchor, harness no longer compiles) and never an alarm.',
    }
    json.dump(man, open(os.path.join(ROOT, 'MANIFEST.json'), 'w'), indent=1)
    print('MANIFEST.json: %d checks, %d not applicable' % (len(checks), len(man['not_applicable'])))


if __name__ == '__main__':
    main()
