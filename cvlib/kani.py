"""Kani driver: workspace copy of /repo's working tree, harness modules appended to the
real source files, one `cargo kani` run per (package, features, flags) group, verdicts
per harness, concrete playback for failures."""
from __future__ import annotations
import json
import os
import re
import shutil
import subprocess
import time
from . import rustscan as rs

ENV = dict(os.environ, CARGO_NET_OFFLINE='true')


def _big_stack():
    # CBMC recurses deeply while converting large formulas; with the default 8 MB stack it dies with
    # SIGSEGV, which Kani reports as 'CBMC appears to have run out of memory'
    import resource
    soft, hard = resource.getrlimit(resource.RLIMIT_STACK)
    try:
        resource.setrlimit(resource.RLIMIT_STACK, (hard, hard))
    except Exception:
        pass


class KaniSetupError(Exception):
    pass


def prepare_ws(repo, wsdir):
    os.makedirs(wsdir, exist_ok=True)
    subprocess.run(['rsync', '-a', '--delete', '--exclude', '/target', '--exclude', '.git',
                    repo.rstrip('/') + '/', wsdir.rstrip('/') + '/'], check=True)


def package_spec(wsdir, pkg):
    txt = open(os.path.join(wsdir, pkg, 'Cargo.toml')).read()
    m = re.search(r'^version\s*=\s*"([^"]+)"', txt, re.M)
    if not m:
        raise KaniSetupError('no version in %s/Cargo.toml' % pkg)
    return '%s@%s' % (pkg, m.group(1))


def mod_name(unit_name):
    return 'cv_kani_' + re.sub(r'[^A-Za-z0-9]', '_', unit_name).lower()


def full_mod_path(unit):
    """module path (inside the crate) of the harness module appended to unit['append_to']"""
    rel = unit['append_to'].split('/src/', 1)[1]
    parts = rel[:-3].split('/')
    if parts[-1] in ('lib', 'mod', 'main'):
        parts = parts[:-1]
    return '::'.join(parts + [mod_name(unit['name'])])


def append_unit(wsdir, unit, extra_tests=''):
    """append the unit's harness module to its target file; attach contract attributes.
    Returns list of anchor problems (empty = ok)."""
    problems = []
    target = os.path.join(wsdir, unit['append_to'])
    if not os.path.exists(target):
        return ['file missing: %s' % unit['append_to']]
    htxt = open(os.path.join(unit['_dir'], unit['harness_file'])).read()
    htxt, fprobs, _ = expand_fragments(wsdir, htxt)
    problems.extend(fprobs)
    # contract attributes on real functions (inserted above the item, nothing else changes)
    for c in unit.get('contracts', []):
        cpath = os.path.join(wsdir, c['file'])
        if not os.path.exists(cpath):
            problems.append('file missing: %s' % c['file'])
            continue
        src = open(cpath).read()
        try:
            toks = rs.tokenize(src)
            item, _ = rs.find_item(toks, c['item'], c.get('trait'), int(c.get('nth', 0)))
        except rs.ScanError as e:
            problems.append(str(e))
            continue
        pos = toks[item.start_idx].pos
        attrs = ''.join('#[cfg_attr(kani, %s)]\n' % a for a in c['attrs'])
        src = src[:pos] + attrs + src[pos:]
        open(cpath, 'w').write(src)
    with open(target, 'a') as f:
        f.write('\n#[cfg(kani)]\n#[allow(warnings)]\nmod %s {\n%s\n%s\n}\n' % (mod_name(unit['name']), htxt, extra_tests))
    # crate-level feature gates some units need (loop contracts)
    for gate in unit.get('crate_attrs', []):
        root = os.path.join(wsdir, unit['crate_root'])
        s = open(root).read()
        open(root, 'w').write(gate + '\n' + s)
    return problems


def _code_toks(text):
    return [t for t in rs.tokenize(text) if t.kind not in ('ws', 'comment', 'doc')]


def _find_seq(toks, idxs, want, start=0):
    """positions p (into idxs) where the token texts match `want`"""
    hits = []
    for p0 in range(start, len(idxs) - len(want) + 1):
        if toks[idxs[p0]].text == want[0] and all(toks[idxs[p0 + j]].text == want[j] for j in range(len(want))):
            hits.append(p0)
    return hits


def expand_fragments(wsdir, htxt):
    """Rule X8 (statement extraction): a harness file may carry blocks

        //@fragment NAME file=<path> item=<Type::fn>
        //@from <exact text of the first statement (or its beginning)>
        //@to <exact text of the end of the last statement>
        //@subst <token text> => <replacement>          (zero or more)
        //@endfragment

    and the placeholder /*@FRAGMENT NAME*/.  The statements from..to are copied, on every run, from the named function
    of the tree under check into the placeholder (inside a wrapper function written in the harness file), after the
    declared token substitutions (a receiver expression replaced by a wrapper parameter).  Everything between the
    two anchors is the code that runs; an edit to an anchor itself loses the anchor (undecided).
    Returns (text, problems, descriptions)."""
    problems, descr = [], []
    out = []
    lines = htxt.split('\n')
    frags = {}
    i = 0
    while i < len(lines):
        ln = lines[i]
        m = re.match(r'\s*//@fragment\s+(\w+)\s+file=(\S+)\s+item=(\S+)', ln)
        if not m:
            out.append(ln)
            i += 1
            continue
        name, file, item = m.group(1), m.group(2), m.group(3)
        frm, to, substs = None, None, []
        i += 1
        while i < len(lines) and not lines[i].strip().startswith('//@endfragment'):
            l2 = lines[i].strip()
            if l2.startswith('//@from '):
                frm = l2[len('//@from '):]
            elif l2.startswith('//@to '):
                to = l2[len('//@to '):]
            elif l2.startswith('//@subst '):
                a, b = l2[len('//@subst '):].split('=>', 1)
                substs.append((a.strip(), b.strip()))
            i += 1
        i += 1
        path = os.path.join(wsdir, file)
        if not os.path.exists(path):
            problems.append('file missing: %s' % file)
            continue
        src = open(path).read()
        try:
            toks = rs.tokenize(src)
            it, _ = rs.find_item(toks, item, None, 0)
        except rs.ScanError as e:
            problems.append(str(e))
            continue
        idxs = [k for k in range(it.start_idx, it.end_idx + 1) if toks[k].kind not in ('ws', 'comment', 'doc')]
        wf = [t.text for t in _code_toks(frm or '')]
        wt = [t.text for t in _code_toks(to or '')]
        hf = _find_seq(toks, idxs, wf) if wf else []
        if len(hf) != 1:
            problems.append('%s: fragment %s: //@from matches %d times' % (item, name, len(hf)))
            continue
        ht = [p for p in _find_seq(toks, idxs, wt, hf[0]) if p >= hf[0]] if wt else []
        if not ht:
            problems.append('%s: fragment %s: //@to not found after //@from' % (item, name))
            continue
        a_tok = toks[idxs[hf[0]]]
        b_tok = toks[idxs[ht[0] + len(wt) - 1]]
        text = src[a_tok.pos:b_tok.pos + len(b_tok.text)]
        for a, b in substs:
            ft = _code_toks(text)
            wa = [t.text for t in _code_toks(a)]
            hits = _find_seq(ft, list(range(len(ft))), wa)
            if not hits:
                continue   # nothing to substitute (if the text still needs the receiver it will not compile: undecided)
            # replace right-to-left so offsets stay valid
            for p0 in reversed(hits):
                s0 = ft[p0].pos
                e0 = ft[p0 + len(wa) - 1].pos + len(ft[p0 + len(wa) - 1].text)
                text = text[:s0] + b + text[e0:]
            # overlapping hits are not expected
        frags[name] = text
        descr.append('X8 fragment %s: statements of %s (%s:%d-%d) copied into a wrapper function%s' % (
            name, item, file, a_tok.line, b_tok.line,
            ''.join('; `%s` replaced by parameter `%s`' % ab for ab in substs)))
    res = '\n'.join(out)
    for name, text in frags.items():
        ph = '/*@FRAGMENT %s*/' % name
        if ph not in res:
            problems.append('placeholder %s missing' % ph)
        res = res.replace(ph, text)
    if re.search(r'/\*@FRAGMENT \w+\*/', res):
        problems.append('unexpanded fragment placeholder')
    return res, problems, descr


_RES = re.compile(r'^Thread (\d+): ?(.*)$')


def parse_output(text):
    """-> dict harness -> result"""
    results = {}
    cur_by_thread = {}
    cur = None
    single = None
    lines = text.split('\n')
    for ln in lines:
        m = _RES.match(ln)
        body = ln
        if m:
            th, body = m.group(1), m.group(2)
            mm = re.match(r'Checking harness (\S+?)\.\.\.', body)
            if mm:
                h = mm.group(1)
                results[h] = _blank(h)
                cur_by_thread[th] = h
                cur = None
                continue
            cur = cur_by_thread.get(th)
            if cur is None:
                continue
        else:
            mm = re.match(r'Checking harness (\S+?)\.\.\.', ln)
            if mm:
                h = mm.group(1)
                results[h] = _blank(h)
                cur = h
                continue
        if cur is None:
            continue
        r = results[cur]
        r['raw'] += body + '\n'
        mm = re.match(r'\s*\*\* (\d+) of (\d+) failed(?: \((.*)\))?', body)
        if mm:
            r['checks_failed'] = int(mm.group(1))
            r['checks_total'] = int(mm.group(2))
            continue
        mm = re.match(r'\s*\*\* (\d+) of (\d+) cover properties satisfied', body)
        if mm:
            r['covers_sat'] = int(mm.group(1))
            r['covers_total'] = int(mm.group(2))
            continue
        mm = re.match(r'Failed Checks: (.*)$', body)
        if mm:
            r['failed_checks'].append({'desc': mm.group(1), 'file': None, 'line': None, 'fn': None})
            continue
        mm = re.match(r'\s*File: "([^"]+)", line (\d+), in (.*)$', body)
        if mm and r['failed_checks']:
            fc = r['failed_checks'][-1]
            fc['file'], fc['line'], fc['fn'] = mm.group(1), int(mm.group(2)), mm.group(3)
            continue
        mm = re.match(r'VERIFICATION:- (\w+)', body)
        if mm:
            r['verdict'] = mm.group(1)
            continue
        mm = re.match(r'Verification Time: ([\d.]+)s', body)
        if mm:
            r['time_s'] = float(mm.group(1))
            continue
        if 'CBMC timed out' in body or 'timed out' in body.lower():
            r['timeout'] = True
        if 'unwinding assertion' in body:
            r['unwind_fail'] = True
    # harness timeouts are also reported in the summary
    for ln in lines:
        if re.search(r'[Tt]imed? ?out', ln):
            for h in results:
                if h in ln:
                    results[h]['timeout'] = True
    return results


def _blank(h):
    return {'harness': h, 'verdict': None, 'checks_failed': None, 'checks_total': None, 'covers_sat': None,
            'covers_total': None, 'failed_checks': [], 'time_s': None, 'raw': '', 'timeout': False, 'unwind_fail': False}


def run_group(wsdir, pkg, features, no_default, kani_args, harnesses, jobs, timeout_s, logpath, extra=()):
    """harnesses: list of full harness names (mod::fn).  Returns (results, raw_text, wall_s, compile_error)"""
    cmd = ['cargo', 'kani', '-p', package_spec(wsdir, pkg)]
    if features:
        cmd += ['-F', ','.join(features)]
    if no_default:
        cmd += ['--no-default-features']
    cmd += list(kani_args)
    cmd += ['-Z', 'unstable-options', '--harness-timeout', '%ds' % timeout_s, '--exact']
    for h in harnesses:
        cmd += ['--harness', h]
    if jobs > 1 and len(harnesses) > 1:
        cmd += ['-j', str(min(jobs, len(harnesses)))]
    cmd += ['--output-format=terse']
    cmd += list(extra)
    t0 = time.time()
    hard = timeout_s * 2 + 900
    try:
        p = subprocess.run(cmd, cwd=wsdir, env=ENV, capture_output=True, text=True, timeout=hard, preexec_fn=_big_stack)
        text = p.stdout + '\n' + p.stderr
    except subprocess.TimeoutExpired as e:
        text = (e.stdout or b'').decode('utf8', 'replace') if isinstance(e.stdout, bytes) else (e.stdout or '')
        text += '\n[cv] cargo kani killed after %ds\n' % hard
    wall = time.time() - t0
    with open(logpath, 'w') as f:
        f.write('$ ' + ' '.join(cmd) + '\n' + text)
    compile_error = None
    if re.search(r'^error(\[E\d+\])?:', text, re.M) and 'Checking harness' not in text:
        errs = re.findall(r'^(error(?:\[E\d+\])?: .*)$', text, re.M)
        compile_error = '; '.join(errs[:4])
    return parse_output(text), text, wall, ' '.join(cmd), compile_error


def playback_print(wsdir, pkg, features, no_default, kani_args, harness, timeout_s, logpath):
    """re-run one failing harness with concrete playback; return the generated test text or None"""
    cmd = ['cargo', 'kani', '-p', package_spec(wsdir, pkg)]
    if features:
        cmd += ['-F', ','.join(features)]
    if no_default:
        cmd += ['--no-default-features']
    cmd += list(kani_args)
    cmd += ['-Z', 'concrete-playback', '--concrete-playback=print', '--exact', '--harness', harness, '--output-format=terse']
    try:
        p = subprocess.run(cmd, cwd=wsdir, env=ENV, capture_output=True, text=True, timeout=timeout_s * 2 + 600, preexec_fn=_big_stack)
    except subprocess.TimeoutExpired:
        return None
    text = p.stdout + '\n' + p.stderr
    open(logpath, 'w').write('$ ' + ' '.join(cmd) + '\n' + text)
    tests = re.findall(r'```\n(.*?)```', text, re.S)
    # Kani also prints witnesses for satisfied cover points, and merges a counterexample with a cover
    # witness when their concrete values coincide: all are kept, the native run tells which ones fail.
    return tests or None


def playback_run(wsdir, pkg, features, no_default, test_names, logpath, timeout_s=1200):
    """native run of generated tests against the real code. -> dict test -> 'failed'|'passed'|'unknown'"""
    cmd = ['cargo', 'kani', 'playback', '-Z', 'concrete-playback', '-p', package_spec(wsdir, pkg)]
    if features:
        cmd += ['-F', ','.join(features)]
    if no_default:
        cmd += ['--no-default-features']
    cmd += ['--', 'kani_concrete_playback']
    try:
        p = subprocess.run(cmd, cwd=wsdir, env=dict(ENV, RUST_BACKTRACE='0'), capture_output=True, text=True, timeout=timeout_s)
        text = p.stdout + '\n' + p.stderr
    except subprocess.TimeoutExpired:
        text = '[cv] playback timeout'
    open(logpath, 'w').write('$ ' + ' '.join(cmd) + '\n' + text)
    out = {}
    for t in test_names:
        m = re.search(r'test \S*%s \.\.\. (\w+)' % re.escape(t), text)
        out[t] = {'FAILED': 'failed', 'ok': 'passed'}.get(m.group(1), 'unknown') if m else 'unknown'
    panic = re.findall(r"panicked at ([^\n]*)\n([^\n]*)", text)
    return out, panic, text


def scan_assumptions(harness_text):
    out = []
    for m in re.finditer(r'kani::assume\(([^;]*)\);', harness_text):
        out.append('kani::assume(%s)' % ' '.join(m.group(1).split())[:140])
    for m in re.finditer(r'#\[kani::stub\(([^\]]*)\)\]', harness_text):
        out.append('kani::stub(%s)' % ' '.join(m.group(1).split())[:160])
    for m in re.finditer(r'#\[kani::stub_verified\(([^\]]*)\)\]', harness_text):
        out.append('kani::stub_verified(%s) [callee replaced by its proved contract]' % m.group(1))
    for m in re.finditer(r'#\[kani::unwind\((\d+)\)\]', harness_text):
        pass
    if 'mem::forget' in harness_text:
        out.append('std::mem::forget of large values: their destructors are not verified')
    seen, res = set(), []
    for a in out:
        if a not in seen:
            seen.add(a); res.append(a)
    return res
